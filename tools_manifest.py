#!/venv/bin/python
"""Regenerates MANIFEST.json from the table below (keeps it valid at all times)."""
import json, os
HERE = os.path.dirname(os.path.abspath(__file__))
CHECKS = {
 "C17": dict(cat="model_checking", tech="stateless model checking: exhaustive deviation-bounded schedule enumeration of the real DelayedQueue under a deterministic scheduler",
   text="All interleavings (shared-access instruction granularity inside delayed_queue.py, early timer expiry) of producer/consumer/remover programs over the real DelayedQueue up to a deviation bound, every execution checked against the exactly-once/FIFO/not-early/close oracle. Right level: the property quantifies over schedules and gaps, which only exhaustive scheduling can cover.",
   note="trusted: wdmc.vsched virtual primitives mirror threading/time semantics; bounds: <=4 puts, deviation bound 1-3 as reported in evidence", ref="3 C17"),
}
CHECKS["C16"] = dict(cat="model_checking", tech="explicit-state BFS over put/get histories of the real EventQueue + stateless model checking (exhaustive deviation-bounded schedules) with a brute-force linearizability oracle + exhaustive pair enumeration for the equality law",
   text="BFS over all put/get_nowait histories (3 items, 2 of them equal) on the real queue against a permissive sequential reference; all interleavings of up to 3 producers and a consumer up to a deviation bound, each checked for linearizability; all pairs of event objects for ==/hash. Right level: the property quantifies over sequences and interleavings.",
   note="trusted: wdmc.vsched primitives and the re-executed stdlib queue.py; coalescing treated as optional (the statement permits, not demands, the drop)", ref="3 C16")
_obs = "trusted: wdmc.vsched primitives; scripted emitter class instead of a native one (the registry/dispatch code under test is the real api.py); delay-bounded schedules (every departure from the default schedule costs 1), bound as reported in the evidence"
CHECKS["C04"] = dict(cat="model_checking", tech="stateless model checking: exhaustive deviation-bounded schedule enumeration of real BaseObserver client programs", text="A family of small client programs (1-3 watches, 1-3 handlers, scripted emitters, application threads and re-entrant callbacks issuing registry calls) run on the real BaseObserver/EventQueue under the deterministic scheduler; every interleaving within the deviation bound is checked for exactly-once, per-watch order and routing from the logical-clock log.", note=_obs, ref="3 C04")
CHECKS["C05"] = dict(cat="model_checking", tech="stateless model checking: exhaustive deviation-bounded schedule enumeration; removal placed at every point of the event stream", text="Programs with a removing call (external thread and re-entrant) on the real BaseObserver; every interleaving within the bound is checked: no callback of a removed handler starts after the removing call returned, none is in progress at the return (unless re-entrant), the unscheduled emitter thread is dead.", note=_obs, ref="3 C05")
CHECKS["C06"] = dict(cat="model_checking", tech="stateless model checking: exhaustive deviation-bounded schedule enumeration with deadlock detection (no enabled thread, no timer)", text="All programs of <=2 application threads x <=2 (quick) / 3 (thorough) calls from {start, schedule, unschedule, unschedule_all, stop, join} plus re-entrant calls, scripted emitters; scheduler verdicts deadlock/horizon and the set of live library threads after stop()+join().", note=_obs + "; part (a) of DESIGN 3 C06 only so far (scripted emitters)", ref="3 C06")
CHECKS["C13"] = dict(cat="model_checking", tech="explicit-state BFS to closure over API call sequences on the real BaseObserver with fault-injecting emitter class, compared step by step with a reference map", text="BFS over all call sequences of the alphabet (incl. schedule failing at emitter construction/start) until no new canonical state appears; after every call emitters, liveness and marker routing are compared with a dict-of-sets reference.", note="trusted: reference map model; alphabet restricted to well-formed calls; closure reported per run", ref="3 C13")
CHECKS["C14"] = dict(cat="exploration", tech="exhaustive enumeration of all directory trees <=4/5 entries over names colliding with the rewritten prefix, real generator functions on a real scratch tree, independent scandir reference", text="Every tree over the names {a,b} (so inner names repeat the moved directory's own name), six spellings (relative / prefixed relative / absolute x str/bytes), both generator functions, compared event by event with an independent recursion: one event per descendant, right paths, flavour, parent-before-child, synthetic flag, path type.", note="exhaustive within the stated universe; larger names/trees not covered; the same prefix rewrite in the inotify watch map is covered by the fsops checks, not here", ref="3 C14")
CHECKS["C15"] = dict(cat="exploration", tech="exhaustive enumeration of event classes x paths x pattern/regex lists x flags against an independent pathlib/re reference evaluator", text="Full product of 11 event classes x path universe (str/bytes, mixed case, one directory level) x include/exclude lists of <=2 patterns (globs and regexes; thorough adds '^$') x case_sensitive x ignore_directories for the three handler classes, plus filter_paths/match_any_paths over short path lists; every case compared with a reference written from the statement.", note="exhaustive within the stated universe; reference evaluator uses pathlib/re directly", ref="3 C15")
CHECKS["C08"] = dict(cat="model_checking", tech="stateless model checking: exhaustive enumeration of native sequences x batch cuts x gaps, each under exhaustive deviation-bounded schedules of the real InotifyBuffer/DelayedQueue with a scripted Inotify", text="All native event sequences up to length 3 (quick) / 4 (thorough) over moves with and without partner and other events, all cuts into read batches, gaps {0,d/2,d,3d/2} on the virtual clock, all interleavings of kernel, reader and consumer within the deviation bound; oracle: exactly-once, kernel order, pairs are real pairs, unmatched FROM never early, pairing not missed while FROM provably still queued, None after close.", note="Inotify itself is scripted here (the real one is exercised by the fsops checks); trusted: wdmc.vsched", ref="3 C08")
NA = {}
def main():
    checks = []
    for pid, c in sorted(CHECKS.items()):
        checks.append(dict(property_id=pid, quick_cmd=f"/venv/bin/python -B /verif/check {pid} --tier quick",
            thorough_cmd=f"/venv/bin/python -B /verif/check {pid} --tier thorough",
            evidence_file=f"/verif/evidence/{pid}.json",
            replay_cmd_template=f"/venv/bin/python -B /verif/check {pid} --replay {{path}}",
            engine="wdmc", technique=c["tech"],
            level_claimed=dict(category=c["cat"], text=c["text"], design_ref=c["ref"]), level_note=c["note"]))
    allp = [json.loads(l)["id"] for l in open(os.path.join(HERE, "properties.jsonl"))]
    na = [dict(property_id=p, reason=NA.get(p, "check not built yet in this session (planned, see DESIGN.md section 3); not claimed until its check exists")) for p in allp if p not in CHECKS]
    m = dict(version=1,
        setup_cmd="mkdir -p /verif/evidence /verif/replays && /venv/bin/python -B -c \"import sys; assert sys.version_info[:2]>=(3,12); sys.path.insert(0,'/verif'); import wdmc.vsched\"",
        hooks=dict(guard="WATCHDOG_VERIF", enable="no source hooks: watchdog is imported from /repo/src under an import swap (virtual threading/time/queue); nothing to enable",
            baseline_off_cmd="cd /repo && /venv/bin/python -m pytest -ra -q -p no:cacheprovider --timeout=900 --continue-on-collection-errors",
            source_commits=[], add_only=True),
        engines=[dict(name="wdmc", path="/verif/wdmc", serves_properties=sorted(CHECKS), kind_free_text="hand-written stateless model checker for Python threads (deterministic scheduler over real OS threads, sys.monitoring scheduling points, deviation-bounded exhaustive DFS), explicit-state BFS and exhaustive enumerators")],
        checks=checks, not_applicable=na,
        notes="All checks run the real code of /repo/src (working tree). See DESIGN.md.")
    json.dump(m, open(os.path.join(HERE, "MANIFEST.json"), "w"), indent=1)
if __name__ == "__main__":
    main()
