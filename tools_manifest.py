#!/venv/bin/python
"""Regenerates MANIFEST.json from the table below (keeps it valid at all times)."""
import json, os
HERE = os.path.dirname(os.path.abspath(__file__))
CHECKS = {
 "C17": dict(cat="model_checking", tech="stateless model checking: exhaustive deviation-bounded schedule enumeration of the real DelayedQueue under a deterministic scheduler",
   text="All interleavings (shared-access instruction granularity inside delayed_queue.py, early timer expiry) of producer/consumer/remover programs over the real DelayedQueue up to a deviation bound, every execution checked against the exactly-once/FIFO/not-early/close oracle. Right level: the property quantifies over schedules and gaps, which only exhaustive scheduling can cover.",
   note="trusted: wdmc.vsched virtual primitives mirror threading/time semantics; bounds: <=4 puts, deviation bound 1-3 as reported in evidence", ref="3 C17"),
}
CHECKS["C16"] = dict(cat="model_checking", tech="explicit-state BFS over put/get histories of the real EventQueue + stateless model checking (exhaustive deviation-bounded schedules) with a brute-force linearizability oracle + exhaustive pair enumeration for the equality law",
   text="BFS over all put/get_nowait histories (3 items, 2 of them equal) on the real queue against a permissive sequential reference; all interleavings of up to 3 producers and a consumer up to a deviation bound, each checked for linearizability; all pairs of event objects for ==/hash. Right level: the property quantifies over sequences and interleavings.",
   note="trusted: wdmc.vsched primitives and the re-executed stdlib queue.py; coalescing treated as optional (the statement permits, not demands, the drop)", ref="3 C16")
NA = {}
def main():
    checks = []
    for pid, c in sorted(CHECKS.items()):
        checks.append(dict(property_id=pid, quick_cmd=f"/venv/bin/python -B /verif/check {pid} --tier quick",
            thorough_cmd=f"/venv/bin/python -B /verif/check {pid} --tier thorough",
            evidence_file=f"/verif/evidence/{pid}.json",
            replay_cmd_template=f"/venv/bin/python -B /verif/check {pid} --replay {{path}}",
            engine="wdmc", technique=c["tech"],
            level_claimed=dict(category=c["cat"], text=c["text"], design_ref=c["ref"]), level_note=c["note"]))
    allp = [json.loads(l)["id"] for l in open(os.path.join(HERE, "properties.jsonl"))]
    na = [dict(property_id=p, reason=NA.get(p, "check not built yet in this session (planned, see DESIGN.md section 3); not claimed until its check exists")) for p in allp if p not in CHECKS]
    m = dict(version=1,
        setup_cmd="mkdir -p /verif/evidence /verif/replays && /venv/bin/python -B -c \"import sys; assert sys.version_info[:2]>=(3,12); sys.path.insert(0,'/verif'); import wdmc.vsched\"",
        hooks=dict(guard="WATCHDOG_VERIF", enable="no source hooks: watchdog is imported from /repo/src under an import swap (virtual threading/time/queue); nothing to enable",
            baseline_off_cmd="cd /repo && /venv/bin/python -m pytest -ra -q -p no:cacheprovider --timeout=900 --continue-on-collection-errors",
            source_commits=[], add_only=True),
        engines=[dict(name="wdmc", path="/verif/wdmc", serves_properties=sorted(CHECKS), kind_free_text="hand-written stateless model checker for Python threads (deterministic scheduler over real OS threads, sys.monitoring scheduling points, deviation-bounded exhaustive DFS), explicit-state BFS and exhaustive enumerators")],
        checks=checks, not_applicable=na,
        notes="All checks run the real code of /repo/src (working tree). See DESIGN.md.")
    json.dump(m, open(os.path.join(HERE, "MANIFEST.json"), "w"), indent=1)
if __name__ == "__main__":
    main()
