"""wdmc - model checking machinery for gorakhargosh/watchdog (see /verif/DESIGN.md)."""
