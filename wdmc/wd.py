"""Access to the watchdog modules of /repo's working tree, bound to the virtual primitives."""

from __future__ import annotations

from . import vsched
from .runner import SRC

_loaded = {}

CORE = [
    "watchdog.utils",
    "watchdog.utils.bricks",
    "watchdog.utils.delayed_queue",
    "watchdog.utils.dirsnapshot",
    "watchdog.utils.patterns",
    "watchdog.utils.event_debouncer",
    "watchdog.utils.process_watcher",
    "watchdog.events",
    "watchdog.observers.api",
    "watchdog.observers.inotify_c",
    "watchdog.observers.inotify_buffer",
    "watchdog.observers.inotify",
    "watchdog.observers.polling",
    "watchdog.tricks",
]


def load(mods=None):
    """Import (once per process) the given watchdog modules under the import swap."""
    global _loaded
    mods = list(mods or CORE)
    if not _loaded:
        _loaded = vsched.import_under_swap(CORE, src=SRC)
    missing = [m for m in mods if m not in _loaded]
    if missing:
        raise RuntimeError(f"modules {missing} are not part of the core set")
    return _loaded


def mod(name):
    return load()[name]
