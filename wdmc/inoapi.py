"""API-call programs over the real InotifyObserver (real kernel) and the real PollingObserver (real tree,
virtual clock) under the deterministic scheduler with code-level scheduling points: C06 (b, c), C07 (API part)."""

from __future__ import annotations

import os
import shutil

from . import envshim, fsops, vsched, wd
from . import explore as ex


class ApiHarness(ex.Harness):
    """prog: dict(kind="inotify"|"polling", init=[ops], threads=[[ops]...], reentrant={k: op})
    ops: ("start",) ("schedule",) ("unschedule",) ("unschedule_all",) ("stop",) ("join",) ("touch",) ("rmroot",)"""

    sched_kwargs = dict(max_steps=60000, timer_deviations=False, switch_cost=1)

    def __init__(self, name, prog):
        self.name = name
        self.prog = prog
        if prog["kind"] == "polling":
            self.sched_kwargs = dict(self.sched_kwargs, max_steps=20000, max_clock=1000.0 + 30.0)

    def body(self, s):
        prog = self.prog
        evm = wd.mod("watchdog.events")
        envshim.install()
        fsops._counter[0] += 1
        base = os.path.join(fsops.scratch_base(), "api-%d" % fsops._counter[0])
        shutil.rmtree(base, ignore_errors=True)
        R = os.path.join(base, "R")
        os.makedirs(os.path.join(R, "sub"))
        shim = envshim.ShimState(seam_points=True)
        s.env["shim"] = shim
        log = []
        T = vsched.vthreading.Thread
        BaseThread = wd.mod("watchdog.utils").BaseThread
        try:
            s.lib_creation = True
            if prog["kind"] == "inotify":
                obs = wd.mod("watchdog.observers.inotify").InotifyObserver()
            else:
                obs = wd.mod("watchdog.observers.polling").PollingObserver(timeout=1.0)
            state = {"n": 0, "watch": None, "cb": 0}

            def do_op(tid, op):
                k = op[0]
                err = None
                log.append(("call", tid, op))
                try:
                    if k == "start":
                        obs.start()
                    elif k == "schedule":
                        state["watch"] = obs.schedule(handler, R, recursive=True)
                    elif k == "unschedule":
                        obs.unschedule(state["watch"])
                    elif k == "unschedule_all":
                        obs.unschedule_all()
                    elif k == "stop":
                        obs.stop()
                    elif k == "join":
                        obs.join()
                    elif k == "touch":
                        state["n"] += 1
                        os.mknod(os.path.join(R, "t%d" % state["n"]))
                    elif k == "rmroot":
                        shutil.rmtree(R, ignore_errors=True)
                    elif k == "wait":
                        vsched.vtime.sleep(op[1])
                    elif k == "add_handler":
                        obs.add_handler_for_watch(Handler(), state["watch"])
                    elif k == "remove_handler":
                        obs.remove_handler_for_watch(handler, state["watch"])
                    elif k == "schedule_other":
                        obs.schedule(Handler(), R, recursive=True)
                except vsched.Abort:
                    raise
                except Exception as e:  # noqa: BLE001 - calls that raise by contract
                    err = type(e).__name__
                log.append(("ret", tid, op, err))

            class Handler(evm.FileSystemEventHandler):
                def __init__(self):
                    state["handlers"] = state.get("handlers", 0) + 1
                    self._h = state["handlers"]     # fixed hash: set iteration order must not depend on id()

                def __hash__(self):
                    return self._h

                def __eq__(self, o):
                    return self is o

                def on_any_event(self, event):
                    k = state["cb"]
                    state["cb"] += 1
                    log.append(("cb", type(event).__name__))
                    op = prog.get("reentrant", {}).get(k)
                    if op is not None:
                        do_op("R", op)

            handler = Handler()
            for op in prog.get("init", ()):
                do_op("M", op)

            def app(tid, ops):
                for op in ops:
                    do_op(tid, op)

            ts = [T(target=app, args=(f"T{j}", ops), name=f"app{j}") for j, ops in enumerate(prog.get("threads", ()))]
            for t in ts:
                t.start()
            if prog["kind"] == "polling":
                s.idle("drain", until=s.clock + 5.0)
            else:
                s.idle("drain")
            log.append(("quiescent",))
            do_op("M", ("stop",))
            for t in ts:
                t.join()
            do_op("M", ("join",))
            lib_alive = sorted(t.name for t in s.live_threads() if isinstance(t.obj, BaseThread))
            viol = list(shim.violations)
            left = shim.cleanup()
            return dict(log=log, lib_alive=lib_alive, fd_violations=viol, leftover=left)
        finally:
            shim.cleanup()
            shutil.rmtree(base, ignore_errors=True)

    def outcome(self, res):
        if res.value is None:
            return repr((res.abort and res.abort[0], res.errors))
        v = res.value
        return repr(([e for e in v["log"] if e[0] in ("ret", "cb")], v["lib_alive"], res.abort and res.abort[0],
                     [(e[0], e[1]) for e in res.errors]))


def check_liveness(h, res):
    """C06 verdicts: no deadlock / horizon, nothing alive after the final stop()+join()."""
    out = h.base_check(res, allow_errors=True, allow_leak=True)
    if res.value is not None and not res.abort and res.value["lib_alive"]:
        out.append(dict(kind="threads-alive-after-stop-join",
                        msg=f"library threads still alive after the final stop(); join(): {res.value['lib_alive']}; "
                            f"program={h.prog}; log={res.value['log']}",
                        fp=f"threads-alive-after-stop-join ({h.prog['kind']})"))
    return out


def check_no_thread_error(h, res):
    """C07 (API part): no library thread ends with an uncaught exception, no descriptor misuse."""
    out = [v for v in h.base_check(res, allow_errors=False, allow_leak=True)
           if v["kind"] in ("thread-error", "harness-error", "fd-violation")]
    return out


def programs(tier):
    P = []
    for kind in ("inotify", "polling"):
        ini = [("schedule",), ("start",)]
        P.append((f"{kind} run-stop", dict(kind=kind, init=ini, threads=[[("stop",)]])))
        P.append((f"{kind} run-touch-stop", dict(kind=kind, init=ini, threads=[[("touch",), ("stop",)]])))
        P.append((f"{kind} run-touch|stop", dict(kind=kind, init=ini, threads=[[("touch",), ("touch",)], [("stop",)]])))
        P.append((f"{kind} run-unschedule", dict(kind=kind, init=ini, threads=[[("touch",)], [("unschedule",)]])))
        P.append((f"{kind} run-unschedule_all|stop", dict(kind=kind, init=ini, threads=[[("unschedule_all",)], [("stop",)]])))
        P.append((f"{kind} stop-twice", dict(kind=kind, init=ini, threads=[[("stop",)], [("stop",)]])))
        P.append((f"{kind} stop-join", dict(kind=kind, init=ini, threads=[[("stop",), ("join",)]])))
        P.append((f"{kind} rmroot-stop", dict(kind=kind, init=ini, threads=[[("rmroot",), ("stop",)]])))
        P.append((f"{kind} rmroot|stop", dict(kind=kind, init=ini, threads=[[("rmroot",)], [("stop",)]])))
        P.append((f"{kind} start-late", dict(kind=kind, init=[("schedule",)], threads=[[("start",)], [("touch",)]])))
        P.append((f"{kind} schedule-late", dict(kind=kind, init=[("start",)], threads=[[("schedule",), ("touch",)]])))
        P.append((f"{kind} schedule|stop", dict(kind=kind, init=[("start",)], threads=[[("schedule",)], [("stop",)]])))
        P.append((f"{kind} reent-stop", dict(kind=kind, init=ini, threads=[[("touch",)]], reentrant={0: ("stop",)})))
        P.append((f"{kind} reent-unschedule", dict(kind=kind, init=ini, threads=[[("touch",)]], reentrant={0: ("unschedule",)})))
        P.append((f"{kind} reent-remove-handler", dict(kind=kind, init=ini, threads=[[("touch",), ("touch",)]], reentrant={0: ("remove_handler",)})))
        P.append((f"{kind} reent-add-handler", dict(kind=kind, init=ini, threads=[[("touch",), ("touch",)]], reentrant={0: ("add_handler",)})))
        P.append((f"{kind} reent-schedule-other", dict(kind=kind, init=ini, threads=[[("touch",), ("touch",)]], reentrant={0: ("schedule_other",)})))
        if tier == "thorough":
            P.append((f"{kind} reent-unschedule_all-ext-stop", dict(kind=kind, init=ini, threads=[[("touch",)], [("stop",)]],
                                                                   reentrant={0: ("unschedule_all",)})))
            P.append((f"{kind} unschedule-reschedule", dict(kind=kind, init=ini, threads=[[("unschedule",), ("schedule",), ("touch",)]])))
    if True:
        # polling needs virtual time to pass between the operation and the poll
        for i, (n, p) in enumerate(P):
            if p["kind"] == "polling":
                p["threads"] = [[op for o in ops for op in ((o, ("wait", 1.5)) if o[0] in ("touch", "rmroot") else (o,))]
                                for ops in p.get("threads", ())]
    return P


def instrument():
    wd.load()
    api = wd.mod("watchdog.observers.api")
    ino = wd.mod("watchdog.observers.inotify")
    ib = wd.mod("watchdog.observers.inotify_buffer")
    ic = wd.mod("watchdog.observers.inotify_c")
    dq = wd.mod("watchdog.utils.delayed_queue")
    pol = wd.mod("watchdog.observers.polling")
    from .obsfam import EXCLUDE
    E, I, B = ino.InotifyEmitter, ic.Inotify, ib.InotifyBuffer
    return vsched.instrument(
        line_modules=[api, wd.mod("watchdog.utils"), ino, ib, dq, pol],
        instr_functions=[(E, "queue_events"), (E, "on_thread_stop"), (I, "close"), (B, "on_thread_stop"),
                         (api.BaseObserver, "dispatch_events")],
        exclude=EXCLUDE + ("InotifyEmitter.__init__", "InotifyEmitter.get_event_mask_from_filter",
                           "InotifyEmitter.get_event_mask_from_filter.<locals>.wanted", "InotifyBuffer.__init__",
                           "PollingEmitter.__init__", "PollingObserver.__init__", "PollingObserverVFS.__init__",
                           "InotifyObserver.__init__", "DelayedQueue.__init__", "InotifyEmitter._decode_path"))
