"""Client programs over the real BaseObserver with a scripted emitter class (C04, C05, C06, C13).

A program is a dict:
  init     : list of ops executed by the main thread before start()
  scripts  : {watch name: [event tag, ...]}   events each emitter instance of that watch queues
  threads  : list of op lists, one application thread each (started after the observer)
  reentrant: {(handler, k): op}               handler performs op inside its k-th callback (k from 0)
  start    : bool - main calls start() after init (default True)
  final    : bool - main finally calls stop(); join() (default True)
Ops: ("schedule", h, w) ("unschedule", w) ("add", h, w) ("remove", h, w) ("unschedule_all",)
     ("stop",) ("start",) ("join",)
Watch names: "w0", "w1", "w2" (paths /w0 ...), suffix "r" = recursive variant of the same path.
"""

from __future__ import annotations

from . import explore as ex
from . import vsched, wd


WNAMES = ["w0", "w1", "w2", "w0r", "w1r", "w2r"]


# thread-local or immutable code that needs no line-level scheduling points
EXCLUDE = ("ObservedWatch.", "load_module", "load_class", "EventEmitter.__init__", "EventDispatcher.__init__",
           "BaseObserver.__init__", "BaseThread.__init__", "EventEmitter.timeout", "EventEmitter.watch",
           "EventDispatcher.timeout", "EventDispatcher.event_queue", "BaseThread.stopped_event",
           "SkipRepeatsQueue._init")


def watch_args(w):
    rec = w.endswith("r")
    return "/" + w.rstrip("r"), rec


class ObsHarness(ex.Harness):
    sched_kwargs = dict(max_steps=30000, timer_deviations=False, switch_cost=1)

    def __init__(self, name, prog):
        self.name = name
        self.prog = prog

    # ------------------------------------------------------------------------------------------
    def body(self, s):
        api = wd.mod("watchdog.observers.api")
        events = wd.mod("watchdog.events")
        T = vsched.vthreading.Thread
        prog = self.prog
        log = []
        keep = []           # keeps event objects alive (ids are used as keys)
        ev_ids = {}
        emitters = {}       # watch name -> list of emitter instances
        harness = self

        class ScriptedEmitter(api.EventEmitter):
            _hash = 0

            def __init__(self, event_queue, watch, *, timeout=1.0, event_filter=None):
                super().__init__(event_queue, watch, timeout=timeout, event_filter=event_filter)
                self.wname = watch.path[1:] + ("r" if watch.is_recursive else "")
                lst = emitters.setdefault(self.wname, [])
                self.inst = len(lst)
                lst.append(self)
                log.append(("emitter", self.wname, self.inst))
                self.script = list(prog.get("scripts", {}).get(self.wname, ()))
                self.k = 0
                self._h = 100 + 10 * WNAMES.index(self.wname) + self.inst

            def __hash__(self):
                return self._h

            def __eq__(self, o):
                return self is o

            def queue_events(self, timeout):
                if self.k < len(self.script):
                    tag = self.script[self.k]
                    if tag.startswith("slow"):
                        vsched.vtime.sleep(2.5)      # one pass of this emitter takes longer than its timeout
                    ev = events.FileCreatedEvent(f"{self.watch.path}/{tag}")
                    eid = (self.wname, self.inst, self.k, tag)
                    keep.append(ev)
                    ev_ids[id(ev)] = eid
                    self.k += 1
                    log.append(("q", eid))
                    self.queue_event(ev)
                    log.append(("qd", eid))
                else:
                    self.stopped_event.wait()

        class Handler(events.FileSystemEventHandler):
            def __init__(self, hname):
                self.hname = hname
                self.n = 0

            def __hash__(self):
                return int(self.hname[1:]) + 1

            def __eq__(self, o):
                return self is o

            def dispatch(self, event):
                eid = ev_ids.get(id(event), ("?", repr(event)))
                k = self.n
                self.n += 1
                log.append(("cb", self.hname, eid))
                s.point("in-callback")   # the callback takes time: other threads may run meanwhile
                op = prog.get("reentrant", {}).get((self.hname, k))
                if op is not None:
                    do_op("R" + self.hname, 0, op)
                log.append(("cbe", self.hname, eid))

        handlers = {h: Handler(h) for h in ("h0", "h1", "h2")}
        obs = api.BaseObserver(ScriptedEmitter, timeout=1.0)
        watches = {}

        def do_op(tid, i, op):
            log.append(("call", tid, i, op))
            err = None
            extra = None
            try:
                kind = op[0]
                if kind == "schedule":
                    path, rec = watch_args(op[2])
                    watches[op[2]] = obs.schedule(handlers[op[1]], path, recursive=rec)
                elif kind == "unschedule":
                    path, rec = watch_args(op[1])
                    w = watches.get(op[1]) or api.ObservedWatch(path, recursive=rec)
                    ems = list(emitters.get(op[1], ()))
                    obs.unschedule(w)
                    extra = [e.is_alive() for e in ems]
                elif kind == "add":
                    path, rec = watch_args(op[2])
                    obs.add_handler_for_watch(handlers[op[1]], watches.get(op[2]) or api.ObservedWatch(path, recursive=rec))
                elif kind == "remove":
                    path, rec = watch_args(op[2])
                    obs.remove_handler_for_watch(handlers[op[1]], watches.get(op[2]) or api.ObservedWatch(path, recursive=rec))
                elif kind == "unschedule_all":
                    ems = [e for l in emitters.values() for e in l]
                    obs.unschedule_all()
                    extra = [e.is_alive() for e in ems]
                elif kind == "stop":
                    ems = [e for l in emitters.values() for e in l]
                    obs.stop()
                    extra = [e.is_alive() for e in ems]
                elif kind == "start":
                    obs.start()
                elif kind == "join":
                    obs.join()
                else:
                    raise ValueError(op)
            except vsched.Abort:
                raise
            except Exception as e:  # noqa: BLE001 - calls that raise by contract just return the error
                err = type(e).__name__
            log.append(("ret", tid, i, op, err, extra))

        s.lib_creation = True
        for i, op in enumerate(prog.get("init", ())):
            do_op("M", i, op)
        if prog.get("start", True):
            do_op("M", 100, ("start",))

        def app(tid, ops):
            for i, op in enumerate(ops):
                do_op(tid, i, op)

        ts = [T(target=app, args=(f"T{j}", ops), name=f"app{j}") for j, ops in enumerate(prog.get("threads", ()))]
        for t in ts:
            t.start()
        s.idle("drain")   # application threads have finished or sit in a join() that needs a stop()
        log.append(("quiescent",))
        alive_emitters = sorted(e.wname for e in obs.emitters if e.is_alive())
        reg = {}
        try:
            reg = {("%s%s" % (w.path[1:], "r" if w.is_recursive else "")): sorted(h.hname for h in hs)
                   for w, hs in obs._handlers.items() if hs}
        except AttributeError:
            pass
        if prog.get("final", True):
            do_op("M", 200, ("stop",))
            for t in ts:
                t.join()
            do_op("M", 201, ("join",))
        else:
            for t in ts:
                t.join()
        log.append(("end",))
        lib_alive = sorted(t.name for t in s.live_threads()
                           if isinstance(t.obj, wd.mod("watchdog.utils").BaseThread))
        return dict(log=log, lib_alive=lib_alive, registry=reg, alive_emitters=alive_emitters,
                    running=any(e[0] == "ret" and e[3] == ("start",) and e[4] is None for e in log)
                    and not any(e[0] == "call" and e[3] == ("stop",) and e[1] != "M" for e in log))

    def outcome(self, res):
        if res.value is None:
            return repr((res.abort and res.abort[0], res.errors))
        v = res.value
        return repr(([e for e in v["log"] if e[0] in ("cb", "ret")], v["lib_alive"],
                     res.abort and res.abort[0], res.errors))


# ==================================================================================================
# oracles over the log
# ==================================================================================================
def analyse(log):
    """Registration intervals per (handler, watch) and event / callback records."""
    events = {}     # eid -> dict(q=idx, qd=idx)
    order = {}      # (watch, inst) -> [eid...] in queueing order
    cbs = []        # (idx_start, idx_end, handler, eid, tid of thread: unknown -> None)
    open_cb = {}
    calls = {}      # (tid, i) -> dict(op, call, ret, err)
    for idx, e in enumerate(log):
        k = e[0]
        if k == "q":
            events[e[1]] = dict(q=idx, qd=None)
            order.setdefault(e[1][:2], []).append(e[1])
        elif k == "qd":
            events[e[1]]["qd"] = idx
        elif k == "cb":
            open_cb[(e[1], e[2])] = idx
        elif k == "cbe":
            st = open_cb.pop((e[1], e[2]), None)
            cbs.append((st, idx, e[1], e[2]))
        elif k == "call":
            calls[(e[1], e[2], idx)] = dict(op=e[3], call=idx, ret=None, err=None, tid=e[1], extra=None)
        elif k == "ret":
            for key in reversed(list(calls)):
                if key[0] == e[1] and key[1] == e[2] and calls[key]["ret"] is None:
                    calls[key]["ret"] = idx
                    calls[key]["err"] = e[4]
                    calls[key]["extra"] = e[5]
                    break
    for (h, eid), st in open_cb.items():
        cbs.append((st, None, h, eid))
    cbs.sort(key=lambda c: c[0])
    return events, order, cbs, list(calls.values())


def reg_intervals(calls, n):
    """possible[(h,w)] = list of [from, to] index intervals in which h may be registered for w;
    definite[(h,w)] likewise for certainly registered.  n = len(log) (open end)."""
    INF = n + 1
    adds, rems = {}, {}
    for c in calls:
        op = c["op"]
        end = c["ret"] if c["ret"] is not None else INF
        if op[0] in ("schedule", "add") and (c["err"] is None or c["ret"] is None):
            adds.setdefault((op[1], op[2]), []).append((c["call"], end))
        elif op[0] in ("schedule", "add"):
            # a failed call may still have had a transient effect; treat as possibly registered during the call only
            adds.setdefault((op[1], op[2]), []).append((c["call"], end, "failed"))
        elif op[0] == "remove":
            rems.setdefault((op[1], op[2]), []).append((c["call"], end, c["err"]))
        elif op[0] == "unschedule":
            rems.setdefault(("*", op[1]), []).append((c["call"], end, c["err"]))
        elif op[0] in ("unschedule_all", "stop"):
            rems.setdefault(("*", "*"), []).append((c["call"], end, c["err"]))
    return adds, rems


def removals_for(rems, h, w):
    out = []
    for key in ((h, w), ("*", w), ("*", "*")):
        out.extend(rems.get(key, ()))
    return sorted(out)


def possibly_registered_at(adds, rems, h, w, lo, hi):
    """May h be registered for w at some instant in [lo, hi]?  (maximal reading)"""
    for a in adds.get((h, w), ()):
        a_call, a_ret = a[0], a[1]
        failed = len(a) > 2
        if a_call > hi:
            continue
        # registration may exist from a_call on, until the *return* of the first removal that
        # started after the registration began (a removal that returned before a_call is irrelevant)
        end = float("inf")
        if failed:
            end = a_ret
        for r_call, r_ret, r_err in removals_for(rems, h, w):
            if r_ret >= a_call and r_err is None:
                # this removal may have taken effect after the registration
                if r_call >= a_ret:  # certainly after
                    end = min(end, r_ret)
                # overlapping: the registration may have happened after the removal -> no bound
        if end >= lo:
            return True
    return False


def definitely_registered_throughout(adds, rems, h, w, lo, hi):
    """Is h certainly registered for w during the whole of [lo, hi]?  (minimal reading)"""
    for a in adds.get((h, w), ()):
        if len(a) > 2:
            continue
        a_call, a_ret = a[0], a[1]
        if a_ret > lo:
            continue
        ok = True
        for r_call, r_ret, r_err in removals_for(rems, h, w):
            if r_ret < a_call:
                continue  # finished before the registration started
            if r_call <= hi:
                ok = False
                break
        if ok:
            return True
    return False


def check_dispatch(h, res, *, c04=True, c05=True):
    """Oracle of C04 (routing, order, exactly-once) and C05 (nothing after removal returned)."""
    out = []
    if res.value is None:
        return out
    log = res.value["log"]
    n = len(log)
    events, order, cbs, calls = analyse(log)
    adds, rems = reg_intervals(calls, n)
    try:
        q_idx = next(i for i, e in enumerate(log) if e[0] == "quiescent")
    except StopIteration:
        q_idx = n

    def v(kind, msg):
        out.append(dict(kind=kind, msg=f"{msg}; program={h.prog}; log={log}", fp=kind))

    seen = {}
    for st, en, hn, eid in cbs:
        if eid[0] == "?":
            v("unknown-event", f"handler {hn} got an event no emitter queued: {eid}")
            continue
        seen.setdefault((hn, eid), []).append(st)
        w = eid[0]
        ev = events.get(eid)
        if c04:
            if ev is None or ev["q"] > st:
                v("before-queued", f"{hn} got {eid} before it was queued")
            elif not possibly_registered_at(adds, rems, hn, w, ev["q"], st):
                v("misrouted", f"{hn} got {eid} of watch {w} but was not registered for it at any time between "
                               f"queueing ({ev['q']}) and callback ({st})")
        if c05:
            if not possibly_registered_at(adds, rems, hn, w, st, st):
                v("callback-after-removal", f"{hn} called for {eid} at {st} after its removal from {w} had returned")
    if c04:
        for (hn, eid), sts in seen.items():
            if len(sts) > 1:
                v("duplicate-dispatch", f"{hn} got {eid} {len(sts)} times")
        # order per handler and emitter instance
        per = {}
        for st, en, hn, eid in cbs:
            if eid[0] != "?":
                per.setdefault((hn, eid[:2]), []).append(eid)
        for (hn, wi), got in per.items():
            ks = [e[2] for e in got]
            if ks != sorted(ks):
                v("out-of-order", f"{hn} got events of {wi} in order {ks}")
        # completeness at quiescence
        for eid, ev in events.items():
            if ev["qd"] is None or ev["qd"] > q_idx:
                continue
            w = eid[0]
            for hn in ("h0", "h1", "h2"):
                if definitely_registered_throughout(adds, rems, hn, w, ev["q"], q_idx):
                    got = [st for st in seen.get((hn, eid), ()) if st < q_idx]
                    if got:
                        continue
                    # coalescing: e may have been merged into an equal, still undelivered event queued
                    # before it (same watch, same content) - then that one was dispatched after e's
                    # queueing and hn, registered all along, must have received it
                    merged = False
                    for eid2, ev2 in events.items():
                        if eid2 != eid and eid2[0] == w and eid2[3] == eid[3] and ev2["q"] < ev["qd"]:
                            if any(st > ev["q"] for st in seen.get((hn, eid2), ())):
                                merged = True
                    if not merged:
                        v("lost-dispatch", f"{hn} was registered for {w} all the time but never got {eid}")
    if c04 and res.value.get("running") and not any(e[0] == "call" and e[3][0] == "stop" for e in log[:q_idx]):
        # registry and emitters agree at quiescence: a watch that has registered handlers has a live emitter
        # (the registry is read by introspection; silently skipped if the attribute is not there)
        for w, hs in (res.value.get("registry") or {}).items():
            if hs and w not in res.value.get("alive_emitters", ()):
                v("registered-without-emitter", f"handlers {hs} are registered for {w} at quiescence but no live emitter "
                                                f"serves that watch (live emitters: {res.value.get('alive_emitters')})")
    if c05:
        # no callback of a removed handler in progress when the removing call returns (unless re-entrant)
        for c in calls:
            op = c["op"]
            if c["ret"] is None or c["err"] is not None:
                continue
            if op[0] not in ("remove", "unschedule", "unschedule_all", "stop"):
                continue
            for st, en, hn, eid in cbs:
                if en is None:
                    en = n + 1
                if not (st < c["ret"] < en):
                    continue
                affected = (op[0] in ("unschedule_all", "stop") or (op[0] == "unschedule" and op[1] == eid[0])
                            or (op[0] == "remove" and op[1] == hn and op[2] == eid[0]))
                if not affected:
                    continue
                if c["tid"].startswith("R") and st < c["call"]:
                    # re-entrant call: made from inside a callback that is in progress
                    # (the dispatcher thread is the caller, so nothing else can be in progress)
                    continue
                v("callback-in-progress-at-removal", f"{op} returned at {c['ret']} while {hn} was inside its callback for {eid}")
            # emitter of an unscheduled watch has stopped and queues nothing later
            if op[0] in ("unschedule", "unschedule_all", "stop"):
                for eid, ev in events.items():
                    if ev["q"] > c["ret"] and (op[0] != "unschedule" or eid[0] == op[1]):
                        # queued by an emitter instance that existed before the call?
                        created = [i for i, e in enumerate(log) if e[0] == "emitter" and e[1] == eid[0] and e[2] == eid[1]]
                        existed = bool(created) and created[0] < c["call"]
                        if existed and not (c["tid"].startswith("R")):
                            v("emitter-queues-after-unschedule", f"{op} returned at {c['ret']} but the emitter of {eid[0]} "
                                                                 f"queued {eid} afterwards (at {ev['q']})")
            if op[0] in ("unschedule", "unschedule_all", "stop") and c["extra"]:
                if any(c["extra"]):
                    v("emitter-alive-after-unschedule", f"{op} returned but an emitter thread of the removed "
                                                        f"watch(es) is still alive: {c['extra']}")
    return out


def run_family(ctx, hs, deep_quick=(), base_bound=2, thorough_limit=40_000):
    """Quick: every program at deviation bound `base_bound` (+1 for the named small ones).
    Thorough: additionally bound+1 for every program whose bound-`base_bound` space had fewer than
    `thorough_limit` executions (measured in this run), bound+2 for the named small ones."""
    sts = ctx.explore_many([(h, base_bound) for h in hs], cap=6_000_000)
    if ctx.tier == "quick":
        deep = [(h, base_bound + 1) for h in hs if h.name.split()[1] in deep_quick]
        if deep:
            ctx.explore_many(deep, cap=3_000_000, selftest=False)
    else:
        deep = [(h, base_bound + (2 if h.name.split()[1] in deep_quick else 1))
                for h, st in zip(hs, sts) if st.executions < thorough_limit]
        ctx.explore_many(deep, cap=60_000_000, selftest=False)
