"""Environment seams for the inotify stack: os / select proxies, inotify entry points, fault plans and
a descriptor shadow table (DESIGN.md 2.2).  Installed once per process; the per-execution state lives in
`vsched.S.env["shim"]` (a ShimState) so that seams are pass-through outside executions."""

from __future__ import annotations

import ctypes
import errno
import os as _os
import select as _select

from . import vsched


class ShimState:
    def __init__(self, *, seam_points=True, faults=None, split_reads=False, track=True):
        self.seam_points = seam_points
        self.faults = dict(faults or {})      # (kind, k) -> errno ; k-th call of that kind (from 0)
        self.counts = {}
        self.fd = {}                           # fd -> "open" | "closed"
        self.fd_kind = {}
        self.violations = []                   # (kind, detail)
        self.calls = []                        # (kind, detail) log of seam calls (for fault enumeration)
        self.split_reads = split_reads
        self.pending_read = {}                 # fd -> leftover bytes of a split read
        self.track = track

    def count(self, kind):
        k = self.counts.get(kind, 0)
        self.counts[kind] = k + 1
        return k

    def fault(self, kind, detail=None):
        k = self.count(kind)
        self.calls.append((kind, detail))
        return self.faults.get((kind, k))

    def opened(self, fd, kind):
        self.fd[fd] = "open"
        self.fd_kind[fd] = kind

    def use(self, fd, what):
        st = self.fd.get(fd)
        if st == "closed":
            self.violations.append(("use-after-close", f"{what} on closed {self.fd_kind.get(fd)} descriptor"))
            self._stop(f"use-after-close: {what} on closed {self.fd_kind.get(fd)} descriptor")
            return False
        return True

    @staticmethod
    def _stop(detail):
        """Behaviour after a descriptor misuse is undefined (the number may belong to someone else): end the
        execution here, deterministically, with the misuse as its verdict."""
        s = vsched.S
        if s is not None and s.active and not s.aborting:
            s._abort_from(s.me(), ("fd-violation", detail))

    def closed(self, fd):
        st = self.fd.get(fd)
        if st == "closed":
            self.violations.append(("double-close", f"{self.fd_kind.get(fd)} descriptor closed twice"))
            self._stop(f"double-close: {self.fd_kind.get(fd)} descriptor closed twice")
            return False
        if st is None:
            return True  # not ours
        self.fd[fd] = "closed"
        return True

    def open_fds(self):
        return sorted(fd for fd, st in self.fd.items() if st == "open")

    def cleanup(self):
        """Close whatever the library left open (called by the harness at the end of an execution)."""
        left = self.open_fds()
        for fd in left:
            try:
                _os.close(fd)
            except OSError:
                pass
            self.fd[fd] = "closed"
        return [self.fd_kind.get(fd) for fd in left]


def _st():
    s = vsched.S
    if s is None or not s.active:
        return None, None
    return s, s.env.get("shim")


def _point(s, st, desc):
    if st is not None and st.seam_points and not s.aborting and s.me() is not None:
        s.seam_point(desc)


class _VPoll:
    def __init__(self):
        self._p = _select.poll()
        self._fds = []

    def register(self, fd, mask=_select.POLLIN):
        s, st = _st()
        if st is not None:
            st.use(fd, "poll.register")
        self._fds.append(fd)
        return self._p.register(fd, mask)

    def unregister(self, fd):
        self._fds.remove(fd)
        return self._p.unregister(fd)

    def poll(self, timeout=None):
        s, st = _st()
        if s is None or st is None:
            return self._p.poll(timeout)
        for fd in self._fds:
            if not st.use(fd, "poll"):
                raise OSError(errno.EBADF, "poll on closed descriptor (shadow table)")
        _point(s, st, "seam:poll")
        res = []

        def ready():
            nonlocal res
            res = self._p.poll(0)
            return bool(res) or any(st.pending_read.get(fd) for fd in self._fds)

        to = None if timeout is None or timeout < 0 else timeout / 1000.0
        s.block(ready, to, desc="seam:poll")
        for fd in self._fds:
            if st.pending_read.get(fd) and not any(f == fd for f, _ in res):
                res.append((fd, _select.POLLIN))
        return res


class _SelectProxy:
    def __getattr__(self, name):
        return getattr(_select, name)

    @staticmethod
    def poll():
        return _VPoll()


class _OsProxy:
    """Replaces the name `os` inside a watchdog module; everything not listed falls through."""

    def __init__(self, walk_point=True):
        self._walk_point = walk_point

    def __getattr__(self, name):
        return getattr(_os, name)

    def read(self, fd, n):
        s, st = _st()
        if st is None:
            return _os.read(fd, n)
        if not st.use(fd, "read"):
            raise OSError(errno.EBADF, "read on closed descriptor (shadow table)")
        _point(s, st, "seam:read")
        e = st.fault("read")
        if e:
            raise OSError(e, _os.strerror(e))
        buf = st.pending_read.pop(fd, b"") or _os.read(fd, n)
        if st.split_reads and st.fd_kind.get(fd) == "inotify":
            # environment deviation: hand out only the first k records of the buffer
            offs = []
            i = 0
            while i + 16 <= len(buf):
                ln = int.from_bytes(buf[i + 12:i + 16], "little")
                i += 16 + ln
                offs.append(i)
            if len(offs) > 1:
                c = s.choose(len(offs), desc="split-read")
                if c:
                    cut = offs[c - 1]
                    st.pending_read[fd] = buf[cut:]
                    buf = buf[:cut]
        return buf

    def write(self, fd, data):
        s, st = _st()
        if st is None:
            return _os.write(fd, data)
        if not st.use(fd, "write"):
            raise OSError(errno.EBADF, "write on closed descriptor (shadow table)")
        _point(s, st, "seam:write")
        return _os.write(fd, data)

    def close(self, fd):
        s, st = _st()
        if st is None:
            return _os.close(fd)
        _point(s, st, "seam:close")
        if not st.closed(fd):
            return None  # swallowed: the real descriptor number may belong to someone else by now
        st.pending_read.pop(fd, None)
        return _os.close(fd)

    def pipe(self):
        s, st = _st()
        r, w = _os.pipe()
        if st is not None:
            st.opened(r, "pipe-r")
            st.opened(w, "pipe-w")
        return r, w

    def walk(self, top, *a, **kw):
        s, st = _st()
        if st is not None:
            _point(s, st, "seam:walk")
            e = st.fault("walk", top)
            if e:
                return iter(())
        return _os.walk(top, *a, **kw)


_installed = {}


def install():
    """Patch the seams into the watchdog modules (idempotent)."""
    from . import wd

    if _installed:
        return _installed
    ic = wd.mod("watchdog.observers.inotify_c")
    ino = wd.mod("watchdog.observers.inotify")
    evs = wd.mod("watchdog.events")
    real_init, real_add, real_rm = ic.inotify_init, ic.inotify_add_watch, ic.inotify_rm_watch

    def v_init():
        s, st = _st()
        if st is None:
            return real_init()
        _point(s, st, "seam:inotify_init")
        e = st.fault("inotify_init")
        if e:
            ctypes.set_errno(e)
            return -1
        fd = real_init()
        if fd >= 0:
            st.opened(fd, "inotify")
        return fd

    def v_add(fd, path, mask):
        s, st = _st()
        if st is None:
            return real_add(fd, path, mask)
        if not st.use(fd, "inotify_add_watch"):
            ctypes.set_errno(errno.EBADF)
            return -1
        _point(s, st, "seam:add_watch")
        e = st.fault("add_watch", path)
        if e:
            ctypes.set_errno(e)
            return -1
        return real_add(fd, path, mask)

    def v_rm(fd, wd_):
        s, st = _st()
        if st is None:
            return real_rm(fd, wd_)
        if not st.use(fd, "inotify_rm_watch"):
            ctypes.set_errno(errno.EBADF)
            return -1
        _point(s, st, "seam:rm_watch")
        return real_rm(fd, wd_)

    ic.inotify_init, ic.inotify_add_watch, ic.inotify_rm_watch = v_init, v_add, v_rm
    ic.os = _OsProxy()
    ic.select = _SelectProxy()
    ino.os = _OsProxy()
    evs.os = _OsProxy()
    _installed.update(ic=ic, ino=ino, real=(real_init, real_add, real_rm))
    return _installed
