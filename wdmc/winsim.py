"""Windows layer on Linux: import shim for watchdog.observers.winapi / read_directory_changes, a fake
kernel32 that is scripted with FILE_NOTIFY_INFORMATION buffers, the encoder of that byte format and the
documented-semantics renderer (filesystem effect -> ReadDirectoryChangesW notifications).

The library code that runs is the real one: WindowsApiEmitter.queue_events -> _read_events ->
winapi.read_events -> winapi.read_directory_changes (calls the fake ReadDirectoryChangesW, which copies
the scripted bytes into the caller's ctypes buffer and sets lpBytesReturned) -> winapi._parse_event_buffer.
"""

from __future__ import annotations

import ctypes
import importlib
import struct
import sys

from . import vsched, wd
from .runner import SRC

FILE_ACTION_ADDED = 1
FILE_ACTION_REMOVED = 2
FILE_ACTION_MODIFIED = 3
FILE_ACTION_RENAMED_OLD_NAME = 4
FILE_ACTION_RENAMED_NEW_NAME = 5
ACTION_NAMES = {1: "ADDED", 2: "REMOVED", 3: "MODIFIED", 4: "RENAMED_OLD", 5: "RENAMED_NEW"}

ERROR_ACCESS_DENIED = 5
ERROR_OPERATION_ABORTED = 995

MODS = ["watchdog.observers.winapi", "watchdog.observers.read_directory_changes"]


# =================================================================================================
# fake kernel32
# =================================================================================================
class FakeWindowsError(OSError):
    """What ctypes.WinError() returns on Windows: an OSError carrying .winerror."""

    def __init__(self, winerror):
        super().__init__(winerror, f"[WinError {winerror}] simulated")
        self.winerror = winerror


class Kernel:
    """Script and log of the fake kernel32 (one per process; reset per execution)."""

    def __init__(self):
        self.reset()

    def reset(self, final_path=None):
        self.reads = []          # scripted results of ReadDirectoryChangesW: ("data", bytes) | ("error", code)
        self.last_error = 0
        self.final_path = final_path    # what GetFinalPathNameByHandleW reports
        self.calls = []
        self.next_handle = 0x1000
        self.open_handles = set()


K = Kernel()


def _unref(arg):
    """ctypes.byref(x) -> x (a Python callable receives the CArgObject; its _obj is the referent)."""
    return getattr(arg, "_obj", arg)


def _ReadDirectoryChangesW(handle, buf, buflen, subtree, flt, nbytes, overlapped, completion):
    K.calls.append(("ReadDirectoryChangesW", handle, bool(subtree)))
    if not K.reads:
        K.last_error = ERROR_OPERATION_ABORTED
        return 0
    kind, val = K.reads.pop(0)
    if kind == "error":
        K.last_error = val
        return 0
    if len(val) > buflen:
        raise AssertionError("scripted buffer larger than the caller's buffer")
    ctypes.memmove(_unref(buf), val, len(val))
    _unref(nbytes).value = len(val)
    return 1


def _CreateFileW(name, access, share, sec, disp, flags, templ):
    K.next_handle += 4
    K.open_handles.add(K.next_handle)
    K.calls.append(("CreateFileW", name))
    return K.next_handle


def _CloseHandle(h):
    K.open_handles.discard(h)
    K.calls.append(("CloseHandle", h))
    return 1


def _CancelIoEx(h, ov):
    K.calls.append(("CancelIoEx", h))
    return 1


def _GetFinalPathNameByHandleW(h, buff, size, flags):
    K.calls.append(("GetFinalPathNameByHandleW", h))
    buff.value = K.final_path or ""
    return len(buff.value)


_IMPL = {
    "ReadDirectoryChangesW": _ReadDirectoryChangesW,
    "CreateFileW": _CreateFileW,
    "CloseHandle": _CloseHandle,
    "CancelIoEx": _CancelIoEx,
    "GetFinalPathNameByHandleW": _GetFinalPathNameByHandleW,
}


class FakeFunc:
    """Foreign function stand-in: settable restype/argtypes/errcheck; errcheck is honoured as ctypes does."""

    def __init__(self, name):
        self.name = name
        self.restype = None
        self.argtypes = None
        self.errcheck = None

    def __call__(self, *args):
        impl = _IMPL.get(self.name)
        if impl is None:
            raise AssertionError(f"fake kernel32.{self.name} was called but is not modelled")
        if self.argtypes is not None and len(args) != len(self.argtypes):
            raise TypeError(f"{self.name}: {len(args)} arguments for {len(self.argtypes)} argtypes")
        value = impl(*args)
        if self.errcheck is not None:
            self.errcheck(value, self, args)
        return value


class FakeWinDLL:
    def __init__(self, name, *a, **kw):
        self._name = name
        self._funcs = {}

    def __getattr__(self, attr):
        if attr.startswith("_"):
            raise AttributeError(attr)
        f = self._funcs.get(attr)
        if f is None:
            f = self._funcs[attr] = FakeFunc(attr)
        return f


def _fake_winerror(code=None, descr=None):
    return FakeWindowsError(K.last_error if code is None else code)


# =================================================================================================
# import
# =================================================================================================
_loaded = {}


def load():
    """Import winapi + read_directory_changes from SRC under the virtual threading/time/queue swap with
    the Windows ctypes surface faked (LLP64 widths).  Returns dict name -> module."""
    if _loaded:
        return _loaded
    wd.load()
    import contextlib  # noqa: F401 - stdlib dependencies are loaded with the real modules first
    import ctypes.wintypes as wt
    import dataclasses  # noqa: F401
    import functools  # noqa: F401
    import platform  # noqa: F401

    platform.python_implementation()
    for m in MODS:
        sys.modules.pop(m, None)
    saved_wt = {k: getattr(wt, k) for k in ("DWORD", "BOOL")}
    saved_ct = {k: getattr(ctypes, k, None) for k in ("WinDLL", "WinError")}
    swaps = {"threading": vsched.vthreading, "time": vsched.vtime, "queue": vsched.vqueue}
    saved_mods = {k: sys.modules.get(k) for k in swaps}
    wt.DWORD = ctypes.c_uint32     # unsigned long is 32 bit on Windows (LLP64), 64 bit here
    wt.BOOL = ctypes.c_int32
    ctypes.WinDLL = FakeWinDLL
    ctypes.WinError = _fake_winerror
    sys.modules.update(swaps)
    try:
        out = {m: importlib.import_module(m) for m in MODS}
    finally:
        for k, v in saved_mods.items():
            if v is None:
                sys.modules.pop(k, None)
            else:
                sys.modules[k] = v
        for k, v in saved_wt.items():
            setattr(wt, k, v)
        # WinError must stay reachable: winapi's errcheck functions look it up at call time
        if saved_ct["WinDLL"] is None:
            del ctypes.WinDLL
        else:
            ctypes.WinDLL = saved_ct["WinDLL"]
    for m in out.values():
        f = getattr(m, "__file__", "") or ""
        if not f.startswith(SRC):
            raise RuntimeError(f"{m.__name__} was imported from {f}, not from {SRC}")
    rdc = out[MODS[1]]
    if rdc.threading is not vsched.vthreading:
        raise RuntimeError("read_directory_changes is not bound to the virtual threading module")
    core = wd.load()
    if rdc.EventEmitter is not core["watchdog.observers.api"].EventEmitter:
        raise RuntimeError("read_directory_changes does not share the core watchdog.observers.api module")
    _loaded.update(out)
    selftest()
    return _loaded


def winapi():
    return load()[MODS[0]]


def rdc():
    return load()[MODS[1]]


# =================================================================================================
# FILE_NOTIFY_INFORMATION encoder
# =================================================================================================
def encode(records, extra=None, fill=0):
    """records: [(action, name)], extra: per record number of additional padding DWORDs after the
    DWORD-aligned end of the name.  NextEntryOffset of the last record is 0.  Padding is filled with
    `fill` (its content is unspecified; zero by default so that a decoder that wrongly reads padding as a
    header sees length 0 instead of a wild length and cannot read gigabytes through ctypes.string_at).
    Returns (bytes, n_bytes)."""
    out = bytearray()
    n = len(records)
    for i, (action, name) in enumerate(records):
        raw = name.encode("utf-16-le", "surrogatepass")
        size = 12 + len(raw)
        size += (-size) % 4
        size += 4 * (extra[i] if extra else 0)
        nxt = 0 if i == n - 1 else size
        rec = struct.pack("<III", nxt, action, len(raw)) + raw
        rec += bytes([fill]) * (size - len(rec))
        out += rec
    return bytes(out), len(out)


ROUNDTRIP_PROBLEMS = []   # filled by selftest(); reported by the check as findings about the library, not as infrastructure


def selftest():
    """Layout of the shimmed ctypes surface (infrastructure: raises) and one round trip through the fake kernel32
    (library behaviour: recorded in ROUNDTRIP_PROBLEMS)."""
    w = _loaded[MODS[0]]
    F = w.FileNotifyInformation
    problems = []
    if ctypes.sizeof(w.DWORD) != 4 or ctypes.sizeof(w.BOOL) != 4:
        problems.append("DWORD/BOOL are not 32 bit")
    if (F.NextEntryOffset.offset, F.Action.offset, F.FileNameLength.offset, F.FileName.offset) != (0, 4, 8, 12):
        problems.append(f"FILE_NOTIFY_INFORMATION layout is wrong: FileName at {F.FileName.offset}")
    if problems:
        raise RuntimeError("winsim self-test: " + "; ".join(problems))
    del ROUNDTRIP_PROBLEMS[:]
    recs = [(1, "d"), (4, "d/f"), (5, "e/f"), (3, "")]
    try:
        buf, n = encode(recs, extra=[0, 1, 0, 2])
        got = w._parse_event_buffer(buf + bytes(16), n)
        if got != recs:
            ROUNDTRIP_PROBLEMS.append(f"_parse_event_buffer(encode({recs})) = {got}")
        # through the fake kernel32 and the real read_events
        K.reset()
        K.reads.append(("data", encode(recs)[0]))
        h = w.get_directory_handle("/x")
        evs = w.read_events(h, "/x", recursive=True)
        if [(e.action, e.src_path) for e in evs] != recs:
            ROUNDTRIP_PROBLEMS.append(f"read_events through the fake kernel32 returned {evs} for {recs}")
        if ("ReadDirectoryChangesW", h, True) not in K.calls:
            raise RuntimeError("winsim self-test: the fake ReadDirectoryChangesW was not called")
        K.reset(final_path="\\Device\\gone")
        K.reads.append(("error", ERROR_ACCESS_DENIED))
        evs = w.read_events(h, "/x", recursive=True)
        if len(evs) != 1 or not evs[0].is_removed_self:
            ROUNDTRIP_PROBLEMS.append(f"a failing read with the root gone does not yield DELETED_SELF: {evs}")
    except RuntimeError:
        raise
    except Exception as e:  # noqa: BLE001
        ROUNDTRIP_PROBLEMS.append(f"{type(e).__name__}: {e} while decoding {recs}")
    finally:
        K.reset()


# =================================================================================================
# documented-semantics renderer
# =================================================================================================
def parent(p):
    return p.rsplit("/", 1)[0] if "/" in p else ""


def render(effects, *, parent_mod, xdir, recursive):
    """effects of ONE operation (see checks/c20.py:Tracker) -> list of records (action, relative name) or
    ("SELF",) for the failing read after the root has gone.

    parent_mod: also report MODIFIED(parent) after an entry was added to / removed from / renamed in a
                directory other than the root (the directory's last-write time changes).
    xdir:       'pair'  - a rename between two directories of the tree is OLD_NAME + NEW_NAME;
                'split' - it is REMOVED(old) + ADDED(new) (what upstream's tests expect from Windows).
    recursive:  False = bWatchSubtree FALSE: only records about direct children of the root."""
    out = []

    def pm(p):
        if parent_mod and parent(p) != "":
            out.append((FILE_ACTION_MODIFIED, parent(p)))

    for e in effects:
        k = e[0]
        if k in ("create", "arrive"):
            out.append((FILE_ACTION_ADDED, e[1]))
            pm(e[1])
        elif k in ("modify", "meta"):
            out.append((FILE_ACTION_MODIFIED, e[1]))
        elif k in ("remove", "depart"):
            out.append((FILE_ACTION_REMOVED, e[1]))
            pm(e[1])
        elif k == "rename":
            _, old, new, kind, ident, victim = e
            if victim is not None:
                out.append((FILE_ACTION_REMOVED, new))
            if parent(old) == parent(new) or xdir == "pair":
                out.append((FILE_ACTION_RENAMED_OLD_NAME, old))
                out.append((FILE_ACTION_RENAMED_NEW_NAME, new))
                pm(old)
                if parent(old) != parent(new):
                    pm(new)
            else:
                out.append((FILE_ACTION_REMOVED, old))
                pm(old)
                out.append((FILE_ACTION_ADDED, new))
                pm(new)
        elif k == "root_gone":
            out.append(("SELF",))
        else:
            raise ValueError(e)
    if not recursive:
        out = [r for r in out if r[0] == "SELF" or "/" not in r[1]]
    return out
