"""Check runner: tiers, evidence, known findings, replay files, exit codes."""

from __future__ import annotations

import hashlib
import json
import os
import sys
import time
import traceback

from . import explore as ex
from . import vsched

VERIF = os.path.dirname(os.path.dirname(os.path.abspath(__file__)))
REPO = os.environ.get("WDMC_REPO", "/repo")
SRC = os.path.join(REPO, "src")


class InfraError(Exception):
    pass


def load_known():
    p = os.path.join(VERIF, "known_findings.json")
    if not os.path.exists(p):
        return []
    with open(p) as f:
        return json.load(f).get("findings", [])


class Ctx:
    """What a check module gets: exploration helpers that accumulate coverage and violations."""

    def __init__(self, pid, tier, seed, level):
        self.pid = pid
        self.tier = tier
        self.seed = seed
        self.level = level
        self.t0 = time.time()
        self.executions = 0          # executions of the real code (schedules / histories)
        self.states = 0              # distinct outcomes / canonical states
        self.transitions = 0         # scheduler steps / BFS edges
        self.evaluations = 0         # enumerated input cases
        self.distinct = 0
        self.parts = []              # per-harness / per-part coverage records
        self.samples = []
        self.violations = {}         # fp -> dict
        self.capped = False
        self.assumptions = []
        self.rule = ""
        self.instrumented = None
        self.workers = int(os.environ.get("WDMC_WORKERS", "0")) or min(16, os.cpu_count() or 1)
        self.harnesses = {}
        self.budget_s = None

    # ---- schedule exploration ------------------------------------------------------------------
    def explore(self, h, bound, **kw):
        return self.explore_many([(h, bound)], **kw)[0]

    def explore_many(self, jobs, *, cap=2_000_000, time_limit=None, selftest=True, workers=None):
        """jobs: list of (harness, deviation bound); all explored exhaustively, in parallel."""
        jobs = list(jobs)
        if time_limit is None and os.environ.get("WDMC_TIME_LIMIT"):
            time_limit = float(os.environ["WDMC_TIME_LIMIT"])    # per exploration call; a cut run is reported as capped
        for h, _ in jobs:
            self.harnesses[h.name] = h
        sts, errors = ex.explore_many(jobs, workers=workers or self.workers, cap=cap, seed=self.seed,
                                      time_limit=time_limit, do_selftest=selftest)
        if errors:
            raise InfraError("; ".join(errors[:3]))
        for (h, bound), st in zip(jobs, sts):
            self.executions += st.executions
            self.states += len(st.outcomes)
            self.transitions += st.steps
            self.capped |= st.capped
            self.parts.append(dict(harness=h.name, bound=bound, executions=st.executions,
                                   choice_points=st.choice_points, max_choice_points=st.max_points,
                                   distinct_outcomes=len(st.outcomes), scheduler_steps=st.steps,
                                   executions_by_deviations=dict(sorted(st.by_cost.items())),
                                   capped=st.capped))
            if len(self.samples) < 4:
                for s in st.samples[:1]:
                    self.samples.append(dict(harness=h.name, **s))
            for fp, v in st.violations.items():
                self.add_violation(v)
        return sts

    def add_violation(self, v):
        fp = v["fp"]
        old = self.violations.get(fp)
        if old is None:
            self.violations[fp] = v

    # ---- plain enumeration ----------------------------------------------------------------------------
    def add_enum(self, name, evaluations, distinct, samples=(), states=None, transitions=None,
                 exhaustive=True, extra=None):
        self.evaluations += evaluations
        self.distinct += distinct
        if states:
            self.states += states
        if transitions:
            self.transitions += transitions
        rec = dict(part=name, evaluations=evaluations, distinct_nontrivial=distinct, exhaustive=exhaustive)
        if extra:
            rec.update(extra)
        self.parts.append(rec)
        for s in list(samples)[:2]:
            if len(self.samples) < 6:
                self.samples.append(dict(part=name, case=s))
        if not exhaustive:
            self.capped = True

    def elapsed(self):
        return time.time() - self.t0


def _replay_path(pid, v):
    d = os.path.join(VERIF, "replays", pid)
    os.makedirs(d, exist_ok=True)
    dig = hashlib.sha1((v["fp"] + repr(v.get("prefix")) + v.get("harness", "")).encode()).hexdigest()[:12]
    p = os.path.join(d, dig + ".json")
    rec = {k: v[k] for k in v if k not in ("infra",)}
    rec["property"] = pid
    with open(p, "w") as f:
        json.dump(rec, f, indent=1, default=repr)
    return p


def finish(ctx, *, level=None, rule="", assumptions=(), extra_cov=None):
    """Write evidence, print verdict lines, return exit code."""
    pid = ctx.pid
    known = [k for k in load_known() if k.get("property") == pid]
    known_fp = {k["fingerprint"]: k for k in known if k.get("status", "known") == "known"}
    infra = [v for v in ctx.violations.values() if v.get("infra")]
    real = [v for v in ctx.violations.values() if not v.get("infra")]
    unlisted = []
    listed = []
    for v in sorted(real, key=lambda v: v["fp"]):
        if v["fp"] in known_fp:
            listed.append(v)
        else:
            unlisted.append(v)
    for v in listed:
        print(f"KNOWN-FINDING: property={pid} {known_fp[v['fp']].get('what', v['fp'])} [{v['fp']}]")
    code = 0
    for v in unlisted:
        p = _replay_path(pid, v)
        print(f"VIOLATION property={pid} replay={p}")
        print(f"  fingerprint: {v['fp']}")
        print("  " + str(v["msg"])[:1500].replace("\n", "\n  "))
        code = 1
    for v in infra:
        print(f"INFRA-ERROR property={pid}: {v['msg'][:2000]}", file=sys.stderr)
        code = code or 2
    level = level or ctx.level
    cov = dict(
        evaluations=ctx.evaluations + ctx.executions,
        distinct_nontrivial=ctx.distinct + ctx.states,
        rule=rule or ctx.rule,
        samples=ctx.samples or [{"note": "no sample recorded"}],
        states=ctx.states,
        transitions=ctx.transitions,
        traces_validated_against_impl=ctx.executions,
        exhaustive=not ctx.capped,
        parts=ctx.parts,
        known_findings_reported=[v["fp"] for v in listed],
        unlisted_violations=[v["fp"] for v in unlisted],
    )
    if ctx.instrumented:
        cov["scheduling_points"] = ctx.instrumented
    if extra_cov:
        cov.update(extra_cov)
    ev = dict(
        property_id=pid, tier=ctx.tier, seed=ctx.seed, level=level, coverage=cov,
        assumptions=list(assumptions) + ctx.assumptions,
        wall_s=round(ctx.elapsed(), 2), violations=len(unlisted),
    )
    os.makedirs(os.path.join(VERIF, "evidence"), exist_ok=True)
    with open(os.path.join(VERIF, "evidence", f"{pid}.json"), "w") as f:
        json.dump(ev, f, indent=1, default=repr)
    print(f"{pid} tier={ctx.tier} executions={ctx.executions} enum={ctx.evaluations} states={ctx.states} "
          f"transitions={ctx.transitions} capped={ctx.capped} known={len(listed)} "
          f"violations={len(unlisted)} wall={ctx.elapsed():.1f}s")
    return code


def replay(check_mod, path):
    with open(path) as f:
        rec = json.load(f)
    if hasattr(check_mod, "replay"):
        return check_mod.replay(rec)
    hs, _ = check_mod.setup("thorough")
    h = {x.name: x for x in hs}.get(rec["harness"])
    if h is None:
        print(f"harness {rec['harness']} not found")
        return 2
    outs = []
    for _ in range(2):
        res = ex.run_one(h, bytes(rec["prefix"]), record_desc=True)
        outs.append(res)
    a, b = outs
    if h.outcome(a) != h.outcome(b):
        print("replay is not deterministic (infrastructure error)")
        return 2
    print(f"replay of {rec['harness']} prefix={rec['prefix']}")
    for p in a.points:
        if p.chosen != 0:
            print("  deviation:", p.desc, "->", p.chosen)
    print("observation:", repr(a.value)[:3000])
    print("abort:", a.abort)
    print("thread errors:", a.errors)
    vs = h.check(a)
    for v in vs:
        print("VERDICT:", v["fp"], "-", v["msg"][:1500])
    if any(v["fp"] == rec["fp"] for v in vs):
        print(f"VIOLATION property={rec['property']} replay={path}")
        return 1
    print("the recorded violation does not reproduce on this tree")
    return 0


def main(argv=None):
    import argparse
    import importlib

    ap = argparse.ArgumentParser()
    ap.add_argument("pid")
    ap.add_argument("--tier", default=os.environ.get("VERIF_TIER", "quick"), choices=["quick", "thorough"])
    ap.add_argument("--replay")
    ap.add_argument("--workers", type=int)
    args = ap.parse_args(argv)
    if os.environ.get("PYTHONHASHSEED") != "0" or os.environ.get("PYTHONDONTWRITEBYTECODE") != "1":
        env = dict(os.environ, PYTHONHASHSEED="0", PYTHONDONTWRITEBYTECODE="1")
        os.execve(sys.executable, [sys.executable, "-B", os.path.join(VERIF, "check")] + (argv or sys.argv[1:]), env)
    if args.workers:
        os.environ["WDMC_WORKERS"] = str(args.workers)
    import logging
    logging.disable(logging.CRITICAL)   # the library logs errors of its own; verdicts come from the oracles
    pid = args.pid.upper()
    seed = int(os.environ.get("VERIF_SEED", "0") or 0)
    sys.path.insert(0, VERIF)
    mod = importlib.import_module(f"checks.{pid.lower()}")
    if args.replay:
        return replay(mod, args.replay)
    ctx = Ctx(pid, args.tier, seed, getattr(mod, "LEVEL", "model_checking"))
    import atexit
    import shutil
    base = "/dev/shm" if os.path.isdir("/dev/shm") and os.access("/dev/shm", os.W_OK) else "/tmp"
    os.environ["WDMC_SCRATCH"] = os.path.join(base, f"wdmc-{os.getpid()}")
    atexit.register(shutil.rmtree, os.environ["WDMC_SCRATCH"], True)
    try:
        mod.run(ctx)
        code = finish(ctx, rule=getattr(mod, "RULE", ""), assumptions=getattr(mod, "ASSUMPTIONS", ()))
    except InfraError as e:
        print(f"INFRA-ERROR property={pid}: {e}", file=sys.stderr)
        return 2
    except vsched.DivergenceError as e:
        print(f"INFRA-ERROR property={pid}: divergence {e}", file=sys.stderr)
        return 2
    except Exception:
        traceback.print_exc()
        return 2
    return code
