"""Deviation-bounded exhaustive exploration of the executions of a harness (stateless, CHESS style).

A work item is a choice prefix.  explore(prefix): run it (default choice 0 afterwards), check the
oracle, then for every later choice point and every alternative whose accumulated deviation cost
stays within the bound, explore that longer prefix.  Every prefix is run exactly once.
"""

from __future__ import annotations

import collections
import gc
import hashlib
import multiprocessing
import os
import random
import time

from . import vsched


class Harness:
    """Base class: one closed program over the real code."""

    name = "harness"
    sched_kwargs: dict = {}

    def body(self, s):  # runs as the main virtual thread; returns a JSON-able observation
        raise NotImplementedError

    def check(self, res):  # -> list of dict(kind=..., msg=..., fp=...)
        return []

    def outcome(self, res):
        return repr((res.value, res.abort[0] if res.abort else None,
                     [(e[0], e[1]) for e in res.errors], res.leaked))

    def describe(self):
        return self.name

    # standard verdicts every harness gets ---------------------------------------------------------
    def base_check(self, res, *, allow_errors=False, allow_leak=False):
        out = []
        if res.harness_error:
            out.append(dict(kind="harness-error", msg=f"{res.harness_error[0]}: {res.harness_error[1]}\n"
                            f"{res.harness_error[2]}", fp=f"harness-error {res.harness_error[0]}",
                            infra=True))
        if res.abort:
            kind, info = res.abort
            if kind == "deadlock":
                where = sorted({f"{_role(n)}@{_where(b, st)}" for n, b, st in info if n != "Main"})
                out.append(dict(kind="deadlock", msg=f"deadlock: {info}", fp="deadlock " + " / ".join(where)))
            elif kind == "fd-violation":
                out.append(dict(kind="fd-violation", msg=f"descriptor misuse: {info}", fp=str(info)))
            elif kind == "horizon":
                out.append(dict(kind="horizon", msg=f"step/time horizon exceeded: {info}", fp="horizon"))
        if not allow_errors:
            for name, et, msg, funcs in res.errors:
                top = funcs[-1] if funcs else "?"
                out.append(dict(kind="thread-error", msg=f"thread {name} died: {et}: {msg} at {funcs[-4:]}",
                                fp=f"thread-error {et} {top}"))
        if not allow_leak and res.leaked and not res.abort:
            out.append(dict(kind="leak", msg=f"threads still alive at the end: {res.leaked}",
                            fp="leak " + ",".join(sorted({n.split('-')[0] for n, _ in res.leaked}))))
        return out


def _role(name):
    import re
    return re.sub(r"[-_ ]?\d+", "", name.split(" (")[0])


def _where(blocked_on, stack):
    for fr in stack:
        if not fr.startswith(("c0", "c1", "c2", "obsfam.py", "fsops.py", "pool.py", "process.py", "popen_fork.py",
                              "context.py", "check:", "runner.py", "explore.py")):
            return fr
    b = str(blocked_on)
    return b.split(",")[0].strip("('") if b else "?"


class Stats:
    def __init__(self):
        self.executions = 0
        self.choice_points = 0
        self.max_points = 0
        self.steps = 0
        self.outcomes = set()
        self.violations = {}  # fp -> dict(kind,msg,fp,prefix,cost,harness)
        self.capped = False
        self.by_cost = collections.Counter()
        self.samples = []

    def merge(self, o):
        self.executions += o.executions
        self.choice_points += o.choice_points
        self.max_points = max(self.max_points, o.max_points)
        self.steps += o.steps
        self.outcomes |= o.outcomes
        self.capped |= o.capped
        self.by_cost.update(o.by_cost)
        for fp, v in o.violations.items():
            old = self.violations.get(fp)
            if old is None or (v["cost"], len(v["prefix"])) < (old["cost"], len(old["prefix"])):
                self.violations[fp] = v
        if len(self.samples) < 3:
            self.samples.extend(o.samples[: 3 - len(self.samples)])


def _digest(s):
    return hashlib.blake2b(s.encode("utf-8", "backslashreplace"), digest_size=8).digest()


def run_one(h, prefix, record_desc=False):
    return vsched.run_execution(h.body, tuple(prefix), record_desc=record_desc, **h.sched_kwargs)


class Budget:
    """Global execution cap shared by all workers (approximate: spent in batches)."""

    def __init__(self, cap, deadline, counter=None):
        self.cap = cap
        self.deadline = deadline
        self.counter = counter
        self.local = 0
        self.pending = 0
        self.exhausted = False

    def spend(self):
        self.local += 1
        self.pending += 1
        if self.counter is None:
            if self.local >= self.cap:
                self.exhausted = True
        elif self.pending >= 50:
            with self.counter.get_lock():
                self.counter.value += self.pending
                total = self.counter.value
            self.pending = 0
            if total >= self.cap:
                self.exhausted = True
        if self.deadline and self.local % 20 == 0 and time.time() > self.deadline:
            self.exhausted = True
        return not self.exhausted


def _explore_subtree(h, root_prefix, bound, stats, budget):
    """DFS below root_prefix (inclusive)."""
    stack = [bytes(root_prefix)]
    n = 0
    while stack:
        if budget.exhausted:
            stats.capped = True
            break
        prefix = stack.pop()
        kids = _explore_one(h, prefix, bound, stats)
        budget.spend()
        n += 1
        if n % 2000 == 0:
            gc.collect()
        kids.reverse()  # so that the earliest alternative is popped first
        stack.extend(kids)


def _trim(choices):
    c = list(choices)
    while c and c[-1] == 0:
        c.pop()
    return c


def _short(v, n=600):
    r = repr(v)
    return r if len(r) <= n else r[:n] + "..."


_G = {}


def pin_cpu(index=0):
    """Pin this process to one CPU: all virtual threads of an execution then share a core, which keeps
    the baton hand-over cheap (cross-CPU wake-ups made executions 5x slower)."""
    try:
        cpus = sorted(os.sched_getaffinity(0))
        if "all" not in _G:
            _G["all"] = cpus
        cpus = _G["all"]
        os.sched_setaffinity(0, {cpus[index % len(cpus)]})
    except (AttributeError, OSError):
        pass


def _init_worker(counter):
    with counter.get_lock():
        idx = counter.value
        counter.value += 1
    pin_cpu(idx + 1)


def _worker(item):
    kind, j, prefix = item
    h, bound = _G["jobs"][j]
    if kind == "selftest":
        return ("selftest", j, selftest(h, seed=_G["seed"]))
    st = Stats()
    try:
        _explore_subtree(h, prefix, bound, st, _G["budget"])
    except vsched.DivergenceError as e:
        return ("selftest", j, f"divergence in {h.name} below prefix {list(prefix)}: {e}")
    return ("stats", j, st)


def explore_many(jobs, *, workers=None, cap=2_000_000, seed=0, time_limit=None, do_selftest=True):
    """Explore every (harness, bound) job exhaustively. Returns (list of Stats per job, selftest errors)."""
    workers = workers or min(16, os.cpu_count() or 1)
    deadline = time.time() + time_limit if time_limit else None
    stats = [Stats() for _ in jobs]
    errors = []
    if workers <= 1:
        pin_cpu(0)
        for j, (h, bound) in enumerate(jobs):
            if do_selftest:
                msg = selftest(h, seed=seed)
                if msg:
                    errors.append(msg)
            _explore_subtree(h, b"", bound, stats[j], Budget(cap, deadline))
        return stats, errors
    ctx = multiprocessing.get_context("fork")
    _G.update(jobs=jobs, budget=Budget(cap, deadline, ctx.Value("q", 0)), seed=seed)
    pool = ctx.Pool(workers, initializer=_init_worker, initargs=(ctx.Value("i", 0),))
    pin_cpu(0)
    try:
        items = []
        want = max(1, -(-workers * 24 // len(jobs)))
        for j, (h, bound) in enumerate(jobs):
            if do_selftest:
                items.append(("selftest", j, b""))
            if want == 1:
                items.append(("explore", j, b""))
                continue
            # breadth-first expansion in the parent until this job's frontier is wide enough
            frontier = collections.deque([b""])
            while frontier and len(frontier) < want and stats[j].executions < cap:
                frontier.extend(_explore_one(h, frontier.popleft(), bound, stats[j]))
            items.extend(("explore", j, p) for p in frontier)
        random.Random(seed).shuffle(items)
        for kind, j, r in pool.imap_unordered(_worker, items, chunksize=1):
            if kind == "selftest":
                if r:
                    errors.append(r)
            else:
                stats[j].merge(r)
    finally:
        pool.terminate()
        pool.join()
    return stats, errors


def explore(h, bound, *, workers=None, cap=2_000_000, seed=0, time_limit=None):
    st, _ = explore_many([(h, bound)], workers=workers, cap=cap, seed=seed, time_limit=time_limit,
                         do_selftest=False)
    return st[0]


def _explore_one(h, prefix, bound, stats):
    res = run_one(h, prefix)
    stats.executions += 1
    stats.choice_points += len(res.points)
    stats.max_points = max(stats.max_points, len(res.points))
    stats.steps += res.steps
    stats.outcomes.add(_digest(h.outcome(res)))
    cost_total = res.cost
    stats.by_cost[cost_total] += 1
    if len(stats.samples) < 2:
        stats.samples.append(dict(choices=list(res.choices), deviations=cost_total,
                                  observation=_short(res.value)))
    for v in h.check(res):
        fp = v["fp"]
        old = stats.violations.get(fp)
        if old is None or (cost_total, len(res.choices)) < (old["cost"], len(old["prefix"])):
            stats.violations[fp] = dict(v, prefix=_trim(res.choices), cost=cost_total, harness=h.name)
    if len(res.points) < len(prefix):
        raise vsched.DivergenceError(f"execution of {h.name} ended after {len(res.points)} choice points, "
                                     f"the prefix has {len(prefix)}")
    cost = sum(res.points[i].costs[res.points[i].chosen] for i in range(len(prefix)))
    kids = []
    for i in range(len(prefix), len(res.points)):
        p = res.points[i]
        for alt in range(1, p.n):
            if cost + p.costs[alt] <= bound:
                kids.append(bytes(res.choices[:i]) + bytes([alt]))
        cost += p.costs[p.chosen]
    return kids


def selftest(h, n=6, seed=0):
    """Determinism self-test: a few executions replayed twice must give identical observations."""
    rng = random.Random(seed)
    base = run_one(h, b"")
    prefixes = [b""]
    pts = [i for i, p in enumerate(base.points) if p.n > 1]
    for _ in range(n - 1):
        if not pts:
            break
        i = rng.choice(pts)
        prefixes.append(bytes(base.choices[:i]) + bytes([rng.randrange(1, base.points[i].n)]))
    for p in prefixes:
        a = run_one(h, p)
        b = run_one(h, p)
        if a.choices != b.choices or [x.n for x in a.points] != [x.n for x in b.points] \
                or h.outcome(a) != h.outcome(b):
            return f"non-deterministic replay of prefix {list(p)} in {h.name}: " \
                   f"{h.outcome(a)[:300]} vs {h.outcome(b)[:300]}"
    return None
