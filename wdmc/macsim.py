"""macOS layer on Linux: a fake `_watchdog_fsevents` extension module (NativeEvent with the flag
properties of src/watchdog_fsevents.c), the import shim for watchdog.observers.fsevents and the
documented-semantics renderer (filesystem effect -> FSEvents items, coalescing per (path, inode) within
one callback batch).
"""

from __future__ import annotations

import importlib
import sys
import types

from . import vsched, wd
from .runner import SRC

# FSEvents.h (CoreServices) - kFSEventStreamEventFlag*
F_MUST_SCAN_SUBDIRS = 0x00000001
F_USER_DROPPED = 0x00000002
F_KERNEL_DROPPED = 0x00000004
F_EVENT_IDS_WRAPPED = 0x00000008
F_HISTORY_DONE = 0x00000010
F_ROOT_CHANGED = 0x00000020
F_MOUNT = 0x00000040
F_UNMOUNT = 0x00000080
F_CREATED = 0x00000100
F_REMOVED = 0x00000200
F_INODE_META_MOD = 0x00000400
F_RENAMED = 0x00000800
F_MODIFIED = 0x00001000
F_FINDER_INFO_MOD = 0x00002000
F_CHANGE_OWNER = 0x00004000
F_XATTR_MOD = 0x00008000
F_IS_FILE = 0x00010000
F_IS_DIR = 0x00020000
F_IS_SYMLINK = 0x00040000
F_OWN_EVENT = 0x00080000
F_IS_HARDLINK = 0x00100000
F_IS_LAST_HARDLINK = 0x00200000
F_CLONED = 0x00400000

FLAG_NAMES = {F_CREATED: "Created", F_REMOVED: "Removed", F_INODE_META_MOD: "InodeMetaMod", F_RENAMED: "Renamed",
              F_MODIFIED: "Modified", F_IS_FILE: "IsFile", F_IS_DIR: "IsDir", F_ROOT_CHANGED: "RootChanged"}

MOD = "watchdog.observers.fsevents"


def flag_str(flags):
    return "|".join(n for b, n in sorted(FLAG_NAMES.items()) if flags & b) or "0"


def _flag_property(bit):
    return property(lambda self: bool(self.flags & bit))


class NativeEvent:
    """Python twin of _watchdog_fsevents.NativeEvent (same constructor keywords, same properties)."""

    __slots__ = ("path", "inode", "flags", "event_id")

    def __init__(self, path="", inode=None, flags=0, id=0):  # noqa: A002
        self.path = path
        self.inode = inode
        self.flags = flags
        self.event_id = id

    def __repr__(self):
        return f'NativeEvent(path="{self.path}", inode={self.inode}, flags={self.flags:x}, id={self.event_id})'

    @property
    def is_coalesced(self):
        masks = (F_CREATED | F_REMOVED, F_CREATED | F_RENAMED, F_REMOVED | F_RENAMED)
        return any((self.flags & m) == m for m in masks)

    must_scan_subdirs = _flag_property(F_MUST_SCAN_SUBDIRS)
    is_user_dropped = _flag_property(F_USER_DROPPED)
    is_kernel_dropped = _flag_property(F_KERNEL_DROPPED)
    is_event_ids_wrapped = _flag_property(F_EVENT_IDS_WRAPPED)
    is_history_done = _flag_property(F_HISTORY_DONE)
    is_root_changed = _flag_property(F_ROOT_CHANGED)
    is_mount = _flag_property(F_MOUNT)
    is_unmount = _flag_property(F_UNMOUNT)
    is_created = _flag_property(F_CREATED)
    is_removed = _flag_property(F_REMOVED)
    is_inode_meta_mod = _flag_property(F_INODE_META_MOD)
    is_renamed = _flag_property(F_RENAMED)
    is_modified = _flag_property(F_MODIFIED)
    is_item_finder_info_modified = _flag_property(F_FINDER_INFO_MOD)
    is_owner_change = _flag_property(F_CHANGE_OWNER)
    is_xattr_mod = _flag_property(F_XATTR_MOD)
    is_file = _flag_property(F_IS_FILE)
    is_directory = _flag_property(F_IS_DIR)
    is_symlink = _flag_property(F_IS_SYMLINK)
    is_own_event = _flag_property(F_OWN_EVENT)
    is_hardlink = _flag_property(F_IS_HARDLINK)
    is_last_hardlink = _flag_property(F_IS_LAST_HARDLINK)
    is_cloned = _flag_property(F_CLONED)


CALLS = []


def _make_fake_module():
    m = types.ModuleType("_watchdog_fsevents")
    m.NativeEvent = NativeEvent

    def rec(name):
        def f(*a, **kw):
            CALLS.append(name)
        f.__name__ = name
        return f

    for n in ("add_watch", "read_events", "flush_events", "remove_watch", "schedule", "loop", "unschedule", "stop"):
        setattr(m, n, rec(n))
    m.__version__ = "0.0-fake"
    return m


_loaded = {}


def load():
    if _loaded:
        return _loaded
    wd.load()
    import logging  # noqa: F401
    import pathlib  # noqa: F401
    import unicodedata  # noqa: F401

    sys.modules.pop(MOD, None)
    fake = _make_fake_module()
    swaps = {"threading": vsched.vthreading, "time": vsched.vtime, "queue": vsched.vqueue,
             "_watchdog_fsevents": fake}
    saved = {k: sys.modules.get(k) for k in swaps}
    sys.modules.update(swaps)
    try:
        mod = importlib.import_module(MOD)
    finally:
        for k, v in saved.items():
            if v is None:
                sys.modules.pop(k, None)
            else:
                sys.modules[k] = v
    f = getattr(mod, "__file__", "") or ""
    if not f.startswith(SRC):
        raise RuntimeError(f"{MOD} was imported from {f}, not from {SRC}")
    if mod.threading is not vsched.vthreading or mod.time is not vsched.vtime:
        raise RuntimeError("fsevents is not bound to the virtual threading/time modules")
    if mod.EventEmitter is not wd.load()["watchdog.observers.api"].EventEmitter:
        raise RuntimeError("fsevents does not share the core watchdog.observers.api module")
    _loaded[MOD] = mod
    selftest()
    return _loaded


def fsevents():
    return load()[MOD]


def selftest():
    # the table of tests/test_fsevents.py::test_coalesced_event_check
    table = [(0, False), (0x800, False), (0x800 | 0x200, True), (0x800 | 0x200 | 0x100, True),
             (0x800 | 0x200 | 0x100 | 0x2000, True), (0x8000 | 0x200 | 0x1000 | 0x2000, False)]
    for flags, exp in table:
        if NativeEvent("", 0, flags, 0).is_coalesced != exp:
            raise RuntimeError(f"macsim self-test: is_coalesced({flags:x}) != {exp}")
    e = NativeEvent("/x", 7, F_CREATED | F_IS_DIR, 3)
    if not (e.is_created and e.is_directory and not e.is_file and not e.is_renamed and e.event_id == 3):
        raise RuntimeError("macsim self-test: flag properties")


# =================================================================================================
# documented-semantics renderer
# =================================================================================================
def render(effects):
    """effects of ONE operation -> list of changes (relative path | None for the root, ident, flags)."""
    out = []
    for e in effects:
        k = e[0]
        if k == "root_gone":
            out.append((None, None, F_ROOT_CHANGED))
            continue
        kf = F_IS_DIR if e[2 if k != "rename" else 3] == "d" else F_IS_FILE
        if k == "create":
            out.append((e[1], e[3], F_CREATED | kf))
        elif k == "modify":
            out.append((e[1], e[3], F_MODIFIED | kf))
        elif k == "meta":
            out.append((e[1], e[3], F_INODE_META_MOD | kf))
        elif k == "remove":
            out.append((e[1], e[3], F_REMOVED | kf))
        elif k in ("depart", "arrive"):
            out.append((e[1], e[3], F_RENAMED | kf))
        elif k == "rename":
            _, old, new, kind, ident, victim = e
            out.append((old, ident, F_RENAMED | kf))
            out.append((new, ident, F_RENAMED | kf))
        else:
            raise ValueError(e)
    return out


def coalesce(changes, place="last"):
    """One callback batch: flags of successive changes to the same (path, item) are OR-ed into one item.
    place='last':  the item stands where its most recent change stands (FSEvents.h: "each event ID comes from the
                   most recent event being reported" and IDs increase within a callback);
    place='first': the item keeps the position of its first change (permissive alternative)."""
    acc = {}
    pos = {}
    for n, (path, ident, flags) in enumerate(changes):
        key = (path, ident)
        acc[key] = acc.get(key, 0) | flags
        if place == "last" or key not in pos:
            pos[key] = n
    return [(p, i, acc[(p, i)]) for (p, i) in sorted(pos, key=pos.get)]
