"""Deterministic scheduler that runs real (watchdog + harness) threads one at a time.

Every virtual thread is a real OS thread, but only the holder of the *baton* runs.  At every
scheduling point the running thread reports here; the scheduler consults the current choice
sequence and either lets it continue or hands the baton over.  An execution is reproduced exactly
by its list of choices.  See DESIGN.md section 2.1.
"""

from __future__ import annotations

import _thread
import collections
import importlib
import importlib.util
import sys
import time as _real_time
import traceback
import types

_allocate = _thread.allocate_lock
_get_ident = _thread.get_ident
_start_new_thread = _thread.start_new_thread


class Abort(BaseException):
    """Raised inside virtual threads to unwind them when an execution is torn down."""


class DivergenceError(Exception):
    """Replay of a recorded prefix did not meet the same choice points (infrastructure error)."""


class VT:
    """One virtual thread."""

    __slots__ = (
        "tid", "name", "baton", "done", "pred", "deadline", "timed_out", "finished", "started",
        "idle", "idle_early", "ident", "obj", "is_lib", "blocked_on", "error",
    )

    def __init__(self, tid, name):
        self.tid = tid
        self.name = name
        self.baton = _allocate()
        self.baton.acquire()
        self.done = _allocate()
        self.done.acquire()
        self.pred = None
        self.deadline = None
        self.timed_out = False
        self.finished = False
        self.started = False
        self.idle = None  # None | "settle" | "drain"
        self.idle_early = False
        self.ident = None
        self.obj = None
        self.is_lib = False
        self.blocked_on = None
        self.error = None

    def __repr__(self):
        return f"<VT {self.tid} {self.name}>"


class ChoicePoint:
    __slots__ = ("n", "costs", "chosen", "desc")

    def __init__(self, n, costs, chosen, desc):
        self.n = n
        self.costs = costs
        self.chosen = chosen
        self.desc = desc


class Sched:
    """State of one execution."""

    def __init__(self, prefix=(), *, max_steps=20000, max_clock=1e9, timer_deviations=True,
                 release_points=True, start_clock=1000.0, record_desc=False, switch_cost=0,
                 only_seams=False):
        self.switch_cost = switch_cost
        self.only_seams = only_seams   # plain points (lock release, notify, is_set ...) are not offered
        self.prefix = prefix
        self.max_steps = max_steps
        self.max_clock = max_clock
        self.timer_deviations = timer_deviations
        self.release_points = release_points
        self.clock = start_clock
        self.start_clock = start_clock
        self.threads = []
        self.by_ident = {}
        self.points = []  # ChoicePoint per choice point with >1 option
        self.choices = []
        self.steps = 0
        self.aborting = False
        self.abort_reason = None  # None | ("deadlock", info) | ("horizon", info)
        self.log = []
        self.thread_errors = []  # (thread name, exc type name, message, [function names])
        self.name_counter = 0
        self.record_desc = record_desc
        self.main = self._new_vt("Main")
        self.main.started = True
        self.main.ident = _get_ident()
        self.by_ident[self.main.ident] = self.main
        self.running = self.main
        self.leaked = []
        self.active = True
        self.lib_creation = False  # harness toggles: threads created now are library threads
        self.env = {}

    # ---- bookkeeping ---------------------------------------------------------------------------
    def _new_vt(self, name):
        t = VT(len(self.threads), name)
        self.threads.append(t)
        return t

    def me(self):
        return self.by_ident.get(_get_ident())

    def now(self):
        return self.clock

    def record(self, *item):
        self.log.append((self.steps, self.me().tid if self.me() else -1) + item)

    # ---- enabledness -----------------------------------------------------------------------------
    def _enabled(self, t):
        if t.finished or not t.started:
            return False
        if t.idle is not None:
            return False
        if t.pred is None:
            return True
        if t.pred():
            return True
        return t.deadline is not None and t.deadline <= self.clock

    def _options(self, cur):
        """Canonical option list: [(thread, cost, kind)]."""
        opts = []
        cur_enabled = cur is not None and self._enabled(cur)
        if cur_enabled:
            opts.append((cur, 0, "cont"))
        for t in self.threads:
            if t is not cur and self._enabled(t):
                # switching away from a runnable thread is a preemption (cost 1); when the running thread
                # cannot go on, the first candidate is the default and the others cost `switch_cost`
                # (0 = preemption bounding a la CHESS, 1 = delay bounding)
                opts.append((t, 1 if cur_enabled else (self.switch_cost if opts else 0), "run"))
        if opts:
            base = 1
            if self.timer_deviations:
                timed = [t for t in self.threads
                         if t.started and not t.finished and t.idle is None and t.pred is not None
                         and t.deadline is not None and not self._enabled(t)]
                timed.sort(key=lambda t: (t.deadline, t.tid))
                for t in timed:
                    opts.append((t, base, "timer-early"))
            for t in self.threads:
                if t.idle is not None and t.idle_early and not t.finished:
                    opts.append((t, base, "idle-early"))
            return opts
        # nobody enabled: settle-idlers first
        settle = [t for t in self.threads if t.idle == "settle" and not t.finished]
        if settle:
            return [(settle[0], 0, "settle")]
        timed = [t for t in self.threads
                 if t.started and not t.finished and t.deadline is not None
                 and (t.idle == "drain" or (t.idle is None and t.pred is not None))]
        timed.sort(key=lambda t: (t.deadline, 1 if t.idle else 0, t.tid))
        if timed:
            first = True
            for t in timed:
                opts.append((t, 0 if first else 1, "timer"))
                first = False
                if not self.timer_deviations:
                    break
            return opts
        drain = [t for t in self.threads if t.idle == "drain" and not t.finished]
        if drain:
            return [(drain[0], 0, "drain")]
        return []

    # ---- the core switch -------------------------------------------------------------------------
    def _choose(self, n, costs, desc):
        i = len(self.choices)
        if i < len(self.prefix):
            c = self.prefix[i]
            err = None
            if isinstance(c, tuple):  # (choice, expected n) form used by strict replay
                c, exp = c
                if exp != n:
                    err = f"choice point {i}: expected {exp} options, found {n} ({desc})"
            if err is None and not 0 <= c < n:
                err = f"choice point {i}: choice {c} out of range {n} ({desc})"
            if err is not None:
                self.env["divergence"] = DivergenceError(err)
                self._abort_from(self.me(), ("divergence", err))
        else:
            c = 0
        self.choices.append(c)
        self.points.append(ChoicePoint(n, costs, c, desc if self.record_desc else None))
        return c

    def choose(self, n, costs=None, desc="env"):
        """Generic environment choice made by the running thread (default 0)."""
        if n <= 1:
            return 0
        if self.aborting:
            raise Abort
        if costs is None:
            costs = (0,) + (1,) * (n - 1)
        return self._choose(n, tuple(costs), desc)

    def _switch(self, cur, desc=None):
        """Called by the running thread `cur` (its pred/idle fields describe whether it may go on)."""
        if self.aborting:
            raise Abort
        self.steps += 1
        if self.steps > self.max_steps or self.clock > self.max_clock:
            self._abort_from(cur, ("horizon", f"steps={self.steps} clock={self.clock - self.start_clock:.3f}"))
        opts = self._options(cur)
        if not opts:
            self._abort_from(cur, ("deadlock", self.describe_threads()))
        if len(opts) == 1:
            nxt, _, kind = opts[0]
        else:
            d = None
            if self.record_desc:
                d = (desc, cur.name if cur else None, [(t.name, k) for t, _, k in opts])
            c = self._choose(len(opts), tuple(o[1] for o in opts), d)
            nxt, _, kind = opts[c]
        self._resume(cur, nxt, kind)

    def _resume(self, cur, nxt, kind):
        if kind in ("timer", "timer-early", "drain", "settle", "idle-early"):
            if nxt.deadline is not None and kind in ("timer", "timer-early") and nxt.deadline > self.clock:
                self.clock = nxt.deadline
            if nxt.idle is not None:
                nxt.timed_out = kind == "timer"
                if kind == "idle-early":
                    nxt.timed_out = False
                nxt.idle = None
                nxt.idle_early = False
                nxt.pred = None
                nxt.deadline = None
            else:
                nxt.timed_out = True
                nxt.pred = None
                nxt.deadline = None
        else:
            if nxt.pred is not None:
                # enabled either because pred holds or because its deadline has passed
                nxt.timed_out = not nxt.pred()
                nxt.pred = None
                nxt.deadline = None
        nxt.blocked_on = None
        self.running = nxt
        if nxt is not cur:
            nxt.baton.release()
            if cur is not None and not cur.finished:
                cur.baton.acquire()
                self.running = cur
                if self.aborting:
                    raise Abort

    def _abort_from(self, cur, reason):
        if self.abort_reason is None:
            self.abort_reason = reason
        self.aborting = True
        if cur is self.main:
            raise Abort
        # wake the main thread (it raises Abort in its own _switch) and park / finish
        self.main.baton.release()
        if cur is not None and not cur.finished:
            cur.baton.acquire()
        raise Abort

    # ---- API used by the virtual primitives ----------------------------------------------------------
    def point(self, desc=None):
        if self.only_seams:
            return
        cur = self.me()
        if cur is None or cur is not self.running:
            return
        self._switch(cur, desc)

    def seam_point(self, desc=None):
        cur = self.me()
        if cur is None or cur is not self.running:
            return
        self._switch(cur, desc)

    def block(self, pred, timeout=None, desc=None):
        """Wait until pred() or the virtual deadline. Returns True iff pred held (not timed out)."""
        cur = self.me()
        if cur is None:
            raise RuntimeError("virtual primitive used from an unmanaged thread")
        if self.aborting:
            raise Abort
        if self.only_seams and pred():
            return True   # uncontended primitive: not a scheduling point in seam-only mode
        cur.pred = pred
        cur.deadline = None if timeout is None else self.clock + max(0.0, timeout)
        cur.timed_out = False
        cur.blocked_on = desc
        self._switch(cur, desc)
        return not cur.timed_out

    def idle(self, kind="drain", *, until=None, allow_early=False):
        """Low-priority wait of a harness thread: resumes when no other thread can run.

        kind="settle": as soon as every other thread is blocked (timers are left pending).
        kind="drain": additionally all timers have fired (the clock advances); `until` bounds the
        virtual time for harnesses with periodic timers.
        Returns True if resumed because of `until`.
        """
        cur = self.me()
        if self.aborting:
            raise Abort
        cur.idle = kind
        cur.idle_early = allow_early
        cur.pred = None
        cur.deadline = until
        cur.timed_out = False
        self._switch(cur, kind)
        return cur.timed_out

    # ---- threads ---------------------------------------------------------------------------------------
    def spawn(self, vthread_obj, name, run):
        t = self._new_vt(name)
        t.obj = vthread_obj
        t.is_lib = self.lib_creation
        ready = _allocate()
        ready.acquire()

        def wrapper():
            t.ident = _get_ident()
            self.by_ident[t.ident] = t
            ready.release()
            t.baton.acquire()
            try:
                if not self.aborting:
                    run()
            except Abort:
                pass
            except BaseException as e:  # noqa: BLE001 - the analogue of threading.excepthook
                tb = traceback.extract_tb(e.__traceback__)
                funcs = [f"{fr.filename.rsplit('/', 1)[-1]}:{fr.name}" for fr in tb]
                self.thread_errors.append((t.name, type(e).__name__, str(e)[:300], funcs))
                t.error = e
            t.finished = True
            if not self.aborting:
                try:
                    self.steps += 1
                    opts = self._options(None)
                    if not opts:
                        self._abort_from(None, ("deadlock", self.describe_threads()))
                    if len(opts) == 1:
                        nxt, _, kind = opts[0]
                    else:
                        d = ("exit", t.name, [(o[0].name, o[2]) for o in opts]) if self.record_desc else None
                        c = self._choose(len(opts), tuple(o[1] for o in opts), d)
                        nxt, _, kind = opts[c]
                    self._resume(t, nxt, kind)
                except Abort:
                    pass
            t.done.release()

        _start_new_thread(wrapper, ())
        ready.acquire()  # the OS thread exists and is parked on its baton
        t.started = True
        return t

    def describe_threads(self):
        out = []
        frames = sys._current_frames()
        for t in self.threads:
            if t.finished or not t.started:
                continue
            fr = frames.get(t.ident)
            stack = []
            while fr is not None:
                fn = fr.f_code.co_filename
                if "/wdmc/" not in fn and "threading" not in fn:
                    stack.append(f"{fn.rsplit('/', 1)[-1]}:{fr.f_code.co_qualname}")
                fr = fr.f_back
            out.append((t.name, str(t.blocked_on), stack[:6]))
        return out

    def live_threads(self):
        return [t for t in self.threads if t.started and not t.finished and t is not self.main]

    def teardown(self):
        """Called by the main thread at the end of the body (or after Abort): unwind every thread."""
        # no memory addresses in observations: they differ between runs
        self.leaked = [(t.name, str(t.blocked_on[0] if isinstance(t.blocked_on, tuple) else t.blocked_on))
                       for t in self.live_threads()]
        self.aborting = True
        for t in self.threads:
            if t is self.main or not t.started:
                continue
            if not t.finished:
                try:
                    t.baton.release()
                except RuntimeError:
                    pass
            t.done.acquire()
        self.active = False


# the scheduler of the execution in progress (one per process)
S: Sched | None = None


def cur():
    return S


# =================================================================================================
# virtual threading module
# =================================================================================================
class _VLock:
    def __init__(self):
        self._owner = None

    def acquire(self, blocking=True, timeout=-1):
        s = S
        if s is None or not s.active:
            self._owner = "x"
            return True
        me = s.me()
        if not blocking:
            s.point("lock.try")
            if self._owner is None:
                self._owner = me
                return True
            return False
        ok = s.block(lambda: self._owner is None, None if timeout is None or timeout < 0 else timeout,
                     desc=("lock", id(self)))
        if ok:
            self._owner = me
        return ok

    __enter__ = acquire

    def release(self):
        if self._owner is None:
            raise RuntimeError("release unlocked lock")
        self._owner = None
        s = S
        if s is not None and s.active and not s.aborting and s.release_points:
            s.point("lock.release")

    def __exit__(self, *a):
        self.release()

    def locked(self):
        return self._owner is not None

    def _is_owned(self):
        if S is None:
            return self._owner is not None
        return self._owner is not None and self._owner is S.me()


class _VRLock:
    def __init__(self):
        self._owner = None
        self._count = 0

    def acquire(self, blocking=True, timeout=-1):
        s = S
        if s is None or not s.active:
            self._count += 1
            self._owner = "x"
            return True
        me = s.me()
        if self._owner is me:
            self._count += 1
            return True
        if not blocking:
            s.point("rlock.try")
            if self._owner is None:
                self._owner, self._count = me, 1
                return True
            return False
        ok = s.block(lambda: self._owner is None, None if timeout is None or timeout < 0 else timeout,
                     desc=("rlock", id(self)))
        if ok:
            self._owner, self._count = me, 1
        return ok

    __enter__ = acquire

    def release(self):
        s = S
        if s is not None and s.active and not s.aborting and self._owner is not s.me():
            raise RuntimeError("cannot release un-acquired lock")
        self._count -= 1
        if self._count <= 0:
            self._count = 0
            self._owner = None
            if s is not None and s.active and not s.aborting and s.release_points:
                s.point("rlock.release")

    def __exit__(self, *a):
        self.release()

    def _is_owned(self):
        if S is None:
            return self._count > 0
        return self._owner is S.me()

    def _release_save(self):
        st = (self._owner, self._count)
        self._owner, self._count = None, 0
        return st

    def _acquire_restore(self, st):
        s = S
        s.block(lambda: self._owner is None, desc=("rlock", id(self)))
        self._owner, self._count = st


def Lock():  # noqa: N802
    return _VLock()


def RLock():  # noqa: N802
    return _VRLock()


class _Waiter:
    __slots__ = ("notified",)

    def __init__(self):
        self.notified = False


class Condition:
    def __init__(self, lock=None):
        if lock is None:
            lock = RLock()
        self._lock = lock
        self.acquire = lock.acquire
        self.release = lock.release
        self._waiters = collections.deque()

    def __enter__(self):
        return self._lock.__enter__()

    def __exit__(self, *a):
        return self._lock.__exit__(*a)

    def _is_owned(self):
        return self._lock._is_owned()

    def wait(self, timeout=None):
        s = S
        if not self._is_owned():
            raise RuntimeError("cannot wait on un-acquired lock")
        w = _Waiter()
        self._waiters.append(w)
        if isinstance(self._lock, _VRLock):
            saved = self._lock._release_save()
        else:
            saved = None
            self._lock._owner = None
        try:
            ok = s.block(lambda: w.notified, timeout, desc=("cond.wait", id(self)))
            if not ok:
                try:
                    self._waiters.remove(w)
                except ValueError:
                    ok = True  # notified between time-out and now (cannot happen: single runner)
            return ok
        finally:
            if saved is not None:
                if s.aborting:
                    self._lock._owner, self._lock._count = saved
                else:
                    self._lock._acquire_restore(saved)
            elif s.aborting:
                self._lock._owner = s.me()
            else:
                me = s.me()
                s.block(lambda: self._lock._owner is None, desc=("cond.reacquire", id(self)))
                self._lock._owner = me

    def wait_for(self, predicate, timeout=None):
        endtime = None
        waittime = timeout
        result = predicate()
        while not result:
            if waittime is not None:
                if endtime is None:
                    endtime = S.clock + waittime
                else:
                    waittime = endtime - S.clock
                    if waittime <= 0:
                        break
            self.wait(waittime)
            result = predicate()
        return result

    def notify(self, n=1):
        if not self._is_owned():
            raise RuntimeError("cannot notify on un-acquired lock")
        s = S
        if s is not None and s.active and not s.aborting:
            s.point("cond.notify")
        while n > 0 and self._waiters:
            w = self._waiters.popleft()
            w.notified = True
            n -= 1

    def notify_all(self):
        self.notify(len(self._waiters))

    notifyAll = notify_all  # noqa: N815


class Event:
    def __init__(self):
        self._flag = False

    def is_set(self):
        s = S
        if s is not None and s.active and not s.aborting:
            s.point("event.is_set")
        return self._flag

    isSet = is_set  # noqa: N815

    def set(self):
        s = S
        if s is not None and s.active and not s.aborting:
            s.point("event.set")
        self._flag = True

    def clear(self):
        self._flag = False

    def wait(self, timeout=None):
        s = S
        if s is None or not s.active:
            return self._flag
        s.block(lambda: self._flag, timeout, desc=("event.wait", id(self)))
        return self._flag


class Semaphore:
    def __init__(self, value=1):
        self._value = value

    def acquire(self, blocking=True, timeout=None):
        s = S
        if not blocking:
            s.point("sem.try")
            if self._value > 0:
                self._value -= 1
                return True
            return False
        ok = s.block(lambda: self._value > 0, timeout, desc=("sem", id(self)))
        if ok:
            self._value -= 1
        return ok

    __enter__ = acquire

    def release(self, n=1):
        self._value += n
        s = S
        if s is not None and s.active and not s.aborting:
            s.point("sem.release")

    def __exit__(self, *a):
        self.release()


BoundedSemaphore = Semaphore


class Thread:
    def __init__(self, group=None, target=None, name=None, args=(), kwargs=None, *, daemon=None):
        self._target = target
        self._args = args
        self._kwargs = kwargs or {}
        s = S
        if name is None:
            if s is not None:
                s.name_counter += 1
                n = s.name_counter
            else:
                n = 0
            name = f"Thread-{n}"
            if target is not None:
                name += f" ({getattr(target, '__name__', 'target')})"
        self._name = str(name)
        self._daemonic = bool(daemon) if daemon is not None else False
        self._vt = None
        self._started_flag = False

    # -- attributes --
    @property
    def name(self):
        return self._name

    @name.setter
    def name(self, v):
        self._name = str(v)

    @property
    def daemon(self):
        return self._daemonic

    @daemon.setter
    def daemon(self, v):
        if self._started_flag:
            raise RuntimeError("cannot set daemon status of active thread")
        self._daemonic = v

    def setDaemon(self, v):  # noqa: N802
        self.daemon = v

    def isDaemon(self):  # noqa: N802
        return self._daemonic

    def getName(self):  # noqa: N802
        return self._name

    def setName(self, v):  # noqa: N802
        self._name = v

    @property
    def ident(self):
        return None if self._vt is None else self._vt.tid + 1000

    native_id = ident

    def __repr__(self):
        return f"<{type(self).__name__}({self._name})>"

    # -- life cycle --
    def start(self):
        s = S
        if self._started_flag:
            raise RuntimeError("threads can only be started once")
        s.point("thread.start")
        self._started_flag = True
        self._vt = s.spawn(self, self._name, self._bootstrap)
        s.point("thread.started")

    def _bootstrap(self):
        self.run()

    def run(self):
        try:
            if self._target is not None:
                self._target(*self._args, **self._kwargs)
        finally:
            del self._target, self._args, self._kwargs

    def join(self, timeout=None):
        s = S
        if not self._started_flag:
            raise RuntimeError("cannot join thread before it is started")
        if self._vt is s.me():
            raise RuntimeError("cannot join current thread")
        vt = self._vt
        s.block(lambda: vt.finished, timeout, desc=("join", self._name))

    def is_alive(self):
        s = S
        if s is not None and s.active and not s.aborting:
            s.point("thread.is_alive")
        return self._started_flag and not self._vt.finished

    isAlive = is_alive  # noqa: N815


class _MainThread(Thread):
    def __init__(self):
        super().__init__(name="MainThread")
        self._started_flag = True


_main_thread_obj = _MainThread()


def current_thread():
    s = S
    if s is None:
        return _main_thread_obj
    me = s.me()
    if me is None or me.obj is None:
        return _main_thread_obj
    return me.obj


currentThread = current_thread  # noqa: N816


def main_thread():
    return _main_thread_obj


def get_ident():
    s = S
    me = s.me() if s else None
    return 999 if me is None else me.tid + 1000


get_native_id = get_ident


def enumerate():  # noqa: A001
    s = S
    out = [_main_thread_obj]
    if s is not None:
        out += [t.obj for t in s.threads if t.obj is not None and t.started and not t.finished]
    return out


def active_count():
    return len(enumerate())


class local:  # noqa: N801
    def __init__(self):
        object.__setattr__(self, "_d", {})

    def _ns(self):
        return object.__getattribute__(self, "_d").setdefault(get_ident(), {})

    def __getattr__(self, k):
        try:
            return self._ns()[k]
        except KeyError:
            raise AttributeError(k) from None

    def __setattr__(self, k, v):
        self._ns()[k] = v

    def __delattr__(self, k):
        del self._ns()[k]


class Timer(Thread):
    def __init__(self, interval, function, args=None, kwargs=None):
        super().__init__()
        self.interval = interval
        self.function = function
        self.args = args or []
        self.kwargs = kwargs or {}
        self.finished = Event()

    def cancel(self):
        self.finished.set()

    def run(self):
        self.finished.wait(self.interval)
        if not self.finished.is_set():
            self.function(*self.args, **self.kwargs)
        self.finished.set()


def excepthook(args):  # never called: the spawn wrapper records errors itself
    pass


TIMEOUT_MAX = 1e9


def _make_module(name, attrs, fallback):
    m = types.ModuleType(name)
    m.__dict__.update(attrs)

    def __getattr__(attr):  # anything else falls through to the real module
        return getattr(fallback, attr)

    m.__getattr__ = __getattr__
    return m


import threading as _real_threading  # noqa: E402

vthreading = _make_module(
    "threading",
    dict(
        Lock=Lock, RLock=RLock, Condition=Condition, Event=Event, Semaphore=Semaphore,
        BoundedSemaphore=BoundedSemaphore, Thread=Thread, Timer=Timer, current_thread=current_thread,
        currentThread=currentThread, main_thread=main_thread, get_ident=get_ident,
        get_native_id=get_native_id, enumerate=enumerate, active_count=active_count, local=local,
        excepthook=excepthook, TIMEOUT_MAX=TIMEOUT_MAX,
    ),
    _real_threading,
)


# =================================================================================================
# virtual time module
# =================================================================================================
def _vtime():
    s = S
    return s.clock if s is not None else 1000.0


def _vsleep(secs):
    s = S
    if s is None or not s.active:
        return
    s.block(lambda: False, max(0.0, secs), desc=("sleep", secs))


vtime = _make_module(
    "time",
    dict(time=_vtime, monotonic=_vtime, perf_counter=_vtime, sleep=_vsleep,
         time_ns=lambda: int(_vtime() * 1e9), monotonic_ns=lambda: int(_vtime() * 1e9)),
    _real_time,
)

vqueue = None  # built by import_under_swap


def _exec_copy(modname, swapped):
    """Load a private copy of a stdlib module from its source with sys.modules swapped."""
    real = importlib.import_module(modname)
    spec = importlib.util.spec_from_file_location(modname, real.__file__)
    mod = importlib.util.module_from_spec(spec)
    saved = {k: sys.modules.get(k) for k in swapped}
    sys.modules.update(swapped)
    try:
        spec.loader.exec_module(mod)
    finally:
        for k, v in saved.items():
            if v is None:
                sys.modules.pop(k, None)
            else:
                sys.modules[k] = v
    return mod


def import_under_swap(mods, src="/repo/src", extra_swaps=None, pre=None):
    """Import watchdog modules from `src` so that they bind the virtual threading/time/queue.

    Returns dict name -> module.  Must be called before any execution; idempotent per process.
    """
    global vqueue
    sys.dont_write_bytecode = True
    if src not in sys.path:
        sys.path.insert(0, src)
    # make sure an installed copy cannot shadow the working tree
    for k in [k for k in sys.modules if k.split(".")[0] == "watchdog"]:
        del sys.modules[k]
    if pre:
        pre()
    for m in mods:  # 1st: plain import pulls in all stdlib dependencies with the real modules
        importlib.import_module(m)
    for k in [k for k in sys.modules if k.split(".")[0] == "watchdog"]:
        del sys.modules[k]
    if vqueue is None:
        vqueue = _exec_copy("queue", {"threading": vthreading, "time": vtime})
    swaps = {"threading": vthreading, "time": vtime, "queue": vqueue}
    if extra_swaps:
        swaps.update(extra_swaps)
    saved = {k: sys.modules.get(k) for k in swaps}
    sys.modules.update(swaps)
    try:
        out = {m: importlib.import_module(m) for m in mods}
    finally:
        for k, v in saved.items():
            if v is None:
                sys.modules.pop(k, None)
            else:
                sys.modules[k] = v
    for m in out.values():
        f = getattr(m, "__file__", "") or ""
        if not f.startswith(src):
            raise RuntimeError(f"{m.__name__} was imported from {f}, not from {src}")
    return out


# =================================================================================================
# code-level scheduling points (sys.monitoring)
# =================================================================================================
_TOOL = 3
_mon = sys.monitoring
_mon_ready = False
_instr_offsets = {}  # code -> set of offsets that are scheduling points

_SHARED_OPS = {
    "LOAD_ATTR", "STORE_ATTR", "DELETE_ATTR", "BINARY_SUBSCR", "STORE_SUBSCR", "DELETE_SUBSCR",
    "CONTAINS_OP", "FOR_ITER", "CALL", "STORE_GLOBAL", "STORE_DEREF",
    "CALL_FUNCTION_EX",
}


def _instr_cb(code, offset):
    offs = _instr_offsets.get(code)
    if offs is None or offset not in offs:
        return _mon.DISABLE
    s = S
    if s is None or not s.active or s.aborting:
        return None
    me = s.by_ident.get(_get_ident())
    if me is None or me is not s.running:
        return None
    s._switch(me, ("instr", code.co_qualname, offset))
    return None


def _code_objects(obj, seen):
    """All code objects of the functions/classes defined in a module or class."""
    out = []
    mod = obj.__name__ if isinstance(obj, types.ModuleType) else obj.__module__

    def visit_code(c):
        if c in seen:
            return
        seen.add(c)
        out.append(c)
        for k in c.co_consts:
            if isinstance(k, types.CodeType):
                visit_code(k)

    def visit(o):
        if isinstance(o, (staticmethod, classmethod)):
            o = o.__func__
        if isinstance(o, property):
            for f in (o.fget, o.fset, o.fdel):
                if f is not None:
                    visit(f)
            return
        if isinstance(o, types.FunctionType):
            if o.__module__ == mod:
                visit_code(o.__code__)
            return
        if isinstance(o, type):
            if o.__module__ == mod and id(o) not in seen:
                seen.add(id(o))
                for v in list(vars(o).values()):
                    visit(v)

    for v in list(vars(obj).values()):
        visit(v)
    return out


def instrument(line_modules=(), instr_functions=(), exclude=()):
    """Enable code-level scheduling points.

    line_modules: modules (or classes) whose functions get a point at the start of every source line
        (first instruction of every line-table entry, plus every jump target so that loops re-fire).
    instr_functions: function objects that additionally get a point before every shared-access instruction.
    exclude: qualnames (or 'Class.' prefixes) to leave alone.
    Both kinds are implemented with INSTRUCTION events at statically computed offsets.  (LINE events are
    not used: with the specializing interpreter they depend on how often a code object ran before - an
    inlined property call re-fires the line event once the LOAD_ATTR has been specialized - which made
    the first execution in a process differ from later ones.)
    Returns a description of what was instrumented (part of the evidence).
    """
    global _mon_ready
    import dis

    if not _mon_ready:
        _mon.use_tool_id(_TOOL, "wdmc")
        _mon.register_callback(_TOOL, _mon.events.INSTRUCTION, _instr_cb)
        _mon_ready = True
    desc = {"line": [], "instr": []}
    seen = set()

    def line_offsets(c):
        offs = {start for start, _end, line in c.co_lines() if line is not None}
        instrs = list(dis.get_instructions(c))
        valid = {i.offset for i in instrs}
        offs &= valid
        offs |= {i.offset for i in instrs if i.is_jump_target}
        offs -= {i.offset for i in instrs if i.opname in ("RESUME", "COPY_FREE_VARS", "MAKE_CELL", "RETURN_GENERATOR")}
        return offs

    resolved = []
    for f in instr_functions:
        if isinstance(f, tuple):      # (owner, "name"): resolved leniently so that a renamed method does not break
            f = getattr(f[0], f[1], None)   # the check (its module/class should also be listed in line_modules)
            if f is None:
                continue
        resolved.append(f)
    for f in resolved:
        if isinstance(f, (staticmethod, classmethod)):
            f = f.__func__
        f = getattr(f, "__func__", f)
        stack = [f.__code__]
        while stack:
            c = stack.pop()
            seen.add(c)
            offs = {i.offset for i in dis.get_instructions(c) if i.opname in _SHARED_OPS} | line_offsets(c)
            _instr_offsets[c] = offs
            _mon.set_local_events(_TOOL, c, _mon.events.INSTRUCTION)
            desc["instr"].append(f"{c.co_qualname}:{len(offs)}")
            stack.extend(k for k in c.co_consts if isinstance(k, types.CodeType))
    seen2 = set()
    for m in line_modules:
        for c in _code_objects(m, seen2):
            if c in seen or c.co_qualname in exclude or any(
                    x.endswith(".") and c.co_qualname.startswith(x) for x in exclude):
                continue
            seen.add(c)
            _instr_offsets[c] = line_offsets(c)
            _mon.set_local_events(_TOOL, c, _mon.events.INSTRUCTION)
            desc["line"].append(c.co_qualname)
    return desc


# =================================================================================================
# running one execution
# =================================================================================================
class Result:
    __slots__ = ("choices", "points", "abort", "errors", "leaked", "log", "steps", "clock", "value",
                 "harness_error")

    def deviations_before(self, i):
        return sum(p.costs[p.chosen] for p in self.points[:i])

    @property
    def cost(self):
        return sum(p.costs[p.chosen] for p in self.points)


def run_execution(body, prefix=(), **kw):
    """Run body(sched) as the main virtual thread under the given choice prefix."""
    global S
    import gc

    s = Sched(prefix, **kw)
    S = s
    gc.disable()
    res = Result()
    res.value = None
    res.harness_error = None
    try:
        try:
            res.value = body(s)
        except Abort:
            pass
        except BaseException as e:  # noqa: BLE001 - an error of the harness body itself
            res.harness_error = (type(e).__name__, str(e)[:500], traceback.format_exc()[-3000:])
        s.teardown()
        if "divergence" in s.env:
            raise s.env["divergence"]
    finally:
        S = None
        gc.enable()
    res.choices = s.choices
    res.points = s.points
    res.abort = s.abort_reason
    res.errors = s.thread_errors
    res.leaked = s.leaked
    res.log = s.log
    res.steps = s.steps
    res.clock = s.clock - s.start_clock
    return res
