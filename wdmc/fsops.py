"""Filesystem histories against the real inotify stack (DESIGN.md 2.3).

The operator (main virtual thread) performs real syscalls on a scratch tree watched by a real
InotifyObserver whose reader, emitter and dispatcher threads run under the deterministic scheduler.
"""

from __future__ import annotations

import itertools
import os
import shutil
import stat as _stat

from . import envshim, vsched, wd
from . import explore as ex

DIRS = ["d", "e", "d/d", "e/d", "d/e"]   # d has two possible sub-directories (siblings matter for walks)
FILES = ["f", "g", "d/f", "e/f", "d/d/f"]   # d/d/f: a file two levels below a directory (nested bursts)
ALL = DIRS + FILES
KIND = {**{p: "d" for p in DIRS}, **{p: "f" for p in FILES}}


MKTREE = {"d": "d", "d/d": "d", "d/f": "f", "d/d/f": "f"}


def parent(p):
    return p.rsplit("/", 1)[0] if "/" in p else ""


def inside(p, d):
    return p.startswith(d + "/")


# =================================================================================================
# reference model of the tree
# =================================================================================================
class Model:
    """tree: {relative path: kind}; outside: list of moved-out things [(kind, subtree dict)]."""

    def __init__(self, tree=None):
        self.tree = dict(tree or {})
        self.outside = []        # moved out entries: dict(kind=, sub={rel: kind}, alive=True)
        self.root_gone = False

    def copy(self):
        m = Model(self.tree)
        m.outside = [dict(o, sub=dict(o["sub"])) for o in self.outside]
        m.root_gone = self.root_gone
        return m

    def key(self):
        return tuple(sorted(self.tree.items()))

    def exists(self, p):
        return p == "" or p in self.tree

    def isdir(self, p):
        return p == "" or self.tree.get(p) == "d"

    def children(self, d):
        pre = d + "/" if d else ""
        return [p for p in self.tree if p.startswith(pre) and p != d and "/" not in p[len(pre):]]

    def subtree(self, d):
        return {p: k for p, k in self.tree.items() if inside(p, d)}

    # -- enumeration of applicable operations, simplest first --------------------------------------
    def ops(self, outside_ops=True, root_delete=False):
        out = []
        t = self.tree
        files_now = [p for p in ALL if t.get(p) == "f"]
        dirs_now = [p for p in ALL if t.get(p) == "d"]
        for p in FILES + ["d"]:      # a regular file may re-use the directory name 'd' (kind changes of a name)
            if p not in t and self.isdir(parent(p)):
                out.append(("mknod", p))
        for p in DIRS:
            if p not in t and self.isdir(parent(p)):
                out.append(("mkdir", p))
        for p in ("d/d", "e/d", "d/e"):
            if parent(p) not in t and p not in t:
                out.append(("makedirs", p))
        if "d" not in t:
            out.append(("mktree", "d"))      # mkdir -p d/d; touch d/f d/d/f  - one nested burst
        for p in files_now:
            out.append(("append", p))
            out.append(("truncate", p))
        for p in ALL:
            if p in t:
                out.append(("chmod", p))
        for p in files_now:
            out.append(("unlink", p))
        for p in dirs_now:
            if self.children(p):
                out.append(("rmtree", p))
            else:
                out.append(("rmdir", p))
        for a in ALL:
            if a not in t:
                continue
            for b in (FILES if t[a] == "f" else DIRS):
                if b == a or inside(b, a) or not self.isdir(parent(b)):
                    continue
                if b in t and t[b] != t[a]:
                    continue  # a file cannot replace a directory and vice versa
                if b in t and t[b] == "d" and self.children(b):
                    continue  # cannot replace a non-empty directory
                if t[a] == "d":
                    sub = self.subtree(a)
                    if sub and "/" in b:
                        continue  # would leave the universe (depth)
                    if any((b + q[len(a):]) not in KIND or KIND[b + q[len(a):]] != k for q, k in sub.items()):
                        continue
                out.append(("rename", a, b))
        for p in ALL:
            if p in t:
                out.append(("move_out", p))
        for p in FILES:
            if p not in t and self.isdir(parent(p)):
                out.append(("move_in_file", p))
        for p in DIRS:
            if p not in t and self.isdir(parent(p)):
                out.append(("move_in_dir", p, "empty"))
                if "/" not in p:
                    out.append(("move_in_dir", p, "tree"))
        for k, o in enumerate(self.outside):      # an entry that was moved out comes back, possibly elsewhere
            if not o["alive"]:
                continue
            for p in (DIRS if o["kind"] == "d" else FILES):
                if p in t or not self.isdir(parent(p)):
                    continue
                if any(((p + "/" + q) not in KIND or KIND[p + "/" + q] != kk) and not q.rsplit("/", 1)[-1].startswith("x")
                       for q, kk in o["sub"].items()):
                    continue
                out.append(("move_back", k, p))
        if outside_ops:
            for k, o in enumerate(self.outside):
                if o["kind"] == "d" and o["alive"]:
                    out.append(("out_touch", k))
                    out.append(("out_rmtree", k))
        if root_delete:
            out.append(("rmtree_root",))
        return out

    # -- applying an operation ------------------------------------------------------------------------
    def apply(self, op):
        """Mutates the model; returns dict(hot=directories structurally changed (old and new names),
        touched=paths the operation works on)."""
        t = self.tree
        k = op[0]
        hot, touched = set(), set()
        if k == "mknod":
            t[op[1]] = "f"
            touched = {op[1]}
        elif k == "mkdir":
            t[op[1]] = "d"
            hot = {op[1]}
            touched = {op[1]}
        elif k == "makedirs":
            t[parent(op[1])] = "d"
            t[op[1]] = "d"
            hot = {parent(op[1]), op[1]}
            touched = set(hot)
        elif k == "mktree":
            for q, kk in MKTREE.items():
                t[q] = kk
            hot = {"d", "d/d"}
            touched = set(MKTREE)
        elif k in ("append", "truncate", "chmod"):
            touched = {op[1]}
        elif k == "unlink":
            del t[op[1]]
            touched = {op[1]}
        elif k == "rmdir":
            del t[op[1]]
            hot = {op[1]}
            touched = {op[1]}
        elif k == "rmtree":
            sub = self.subtree(op[1])
            hot = {op[1]} | {p for p, kk in sub.items() if kk == "d"}
            touched = {op[1]} | set(sub)
            for p in sub:
                del t[p]
            del t[op[1]]
        elif k == "rename":
            a, b = op[1], op[2]
            sub = self.subtree(a)
            kind = t.pop(a)
            for p in sub:
                del t[p]
            if b in t and kind == "d":
                hot.add(b)
            t[b] = kind
            for p, kk in sub.items():
                t[b + p[len(a):]] = kk
            touched = {a, b}
            if kind == "d":
                hot |= {a, b} | {p for p, kk in sub.items() if kk == "d"} | {b + p[len(a):] for p, kk in sub.items() if kk == "d"}
        elif k == "move_out":
            a = op[1]
            sub = self.subtree(a)
            kind = t.pop(a)
            for p in sub:
                del t[p]
            self.outside.append(dict(kind=kind, sub={p[len(a) + 1:]: kk for p, kk in sub.items()}, alive=True,
                                     old=a))
            touched = {a}
            if kind == "d":
                hot = {a} | {p for p, kk in sub.items() if kk == "d"} | {"OUT:%d" % (len(self.outside) - 1)}
        elif k == "move_in_file":
            t[op[1]] = "f"
            touched = {op[1]}
        elif k == "move_in_dir":
            t[op[1]] = "d"
            hot = {op[1]}
            if op[2] == "tree":
                t[op[1] + "/d"] = "d"
                t[op[1] + "/f"] = "f"
                hot.add(op[1] + "/d")
            touched = {op[1]}
        elif k == "mkdir_x":      # a directory outside the name universe (used by the vanish search only)
            t[op[1] + "/x"] = "d"
            hot = {op[1] + "/x"}
            touched = {op[1] + "/x"}
        elif k == "move_back":
            o = self.outside[op[1]]
            o["alive"] = False
            t[op[2]] = o["kind"]
            for q, kk in o["sub"].items():
                t[op[2] + "/" + q] = kk
            touched = {op[2]}
            if o["kind"] == "d":
                hot = {op[2]} | {op[2] + "/" + q for q, kk in o["sub"].items() if kk == "d"}
        elif k == "out_touch":
            self.outside[op[1]]["sub"]["x%d" % len(self.outside[op[1]]["sub"])] = "f"
        elif k == "out_rmtree":
            self.outside[op[1]]["alive"] = False
        elif k == "rmtree_root":
            self.tree = {}
            self.root_gone = True
        else:
            raise ValueError(op)
        return dict(hot=hot, touched=touched)


def pacing_ok(hot, model_before, op):
    """May `op` follow without a drain after operations that made the directories in `hot` hot?
    (C01's pacing condition: nothing may touch the contents of such a directory or re-use one of its
    names; the directory itself may be renamed again, chmod-ed or removed.)"""
    k = op[0]
    if k in ("out_touch", "out_rmtree"):
        return ("OUT:%d" % op[1]) not in hot   # the moved-out directory's contents
    if k == "rmtree_root":
        return not hot
    paths = [x for x in op[1:] if isinstance(x, str) and (x in KIND)]
    if k == "move_back":
        paths = [op[2]]
    for p in paths:
        for h in hot:
            if inside(p, h):
                return False
    if k in ("mknod", "mkdir", "move_in_file", "move_in_dir") and op[1] in hot:
        return False
    if k == "move_back" and (op[2] in hot or ("OUT:%d" % op[1]) in hot):
        return False
    if k == "makedirs" and ({op[1], parent(op[1])} & hot):
        return False
    if k == "mktree" and (set(MKTREE) & hot):
        return False
    if k == "rename" and op[2] in hot:
        return False
    if k == "rmtree" and op[1] in hot:
        return False   # removes the directory's contents
    if k in ("rmtree", "rename", "move_out") and model_before.isdir(op[1]):
        # moving / deleting a tree touches every directory inside it
        if any(inside(h, op[1]) for h in hot):
            return False
    return True


def small_trees(max_entries):
    """All trees over the universe with at most max_entries entries (parents before children)."""
    out = []
    for n in range(max_entries + 1):
        for combo in itertools.combinations(ALL, n):
            s = set(combo)
            if all(parent(p) == "" or parent(p) in s for p in combo):
                out.append({p: KIND[p] for p in combo})
    return out


# =================================================================================================
# executing a history on the real stack
# =================================================================================================
class Config:
    def __init__(self, recursive=True, root_type="str", full=False, event_filter=None, early=False,
                 split_reads=False, second_filter=None, probes=True, faults=None, seam_points=True,
                 outside_ops=True, root_form="abs", names="ascii", prior_flat=False, second_type=None):
        self.second_type = second_type        # C19: the same root is also scheduled with this other path type
        self.prior_flat = prior_flat          # C11: a non-recursive watch with the same filter is started first
        self.root_form = root_form            # abs | rel | slash  (C19)
        self.names = names                    # ascii | utf8 | undecodable  (C19)
        self.recursive = recursive
        self.root_type = root_type
        self.full = full
        self.event_filter = event_filter      # list of event class names or None
        self.early = early                    # operator may resume early at non-mandatory waits
        self.split_reads = split_reads
        self.second_filter = second_filter    # C11: a second, filtered watch on the same root
        self.probes = probes
        self.faults = faults
        self.seam_points = seam_points
        self.outside_ops = outside_ops

    def tag(self):
        return (f"{'rec' if self.recursive else 'flat'}-{self.root_type}{'-full' if self.full else ''}"
                f"{'-' + self.root_form if self.root_form != 'abs' else ''}"
                f"{'-names:' + self.names if self.names != 'ascii' else ''}"
                f"{'-early' if self.early else ''}{'-split' if self.split_reads else ''}"
                f"{'-filter=' + '+'.join(self.second_filter) if self.second_filter else ''}"
                f"{'-priorflat' if self.prior_flat else ''}"
                f"{'-twin:' + self.second_type if self.second_type else ''}"
                f"{'-faults=' + repr(sorted(self.faults.items())) if self.faults else ''}")


_counter = [0]


def scratch_base():
    """Per-process scratch directory below the run's root (removed by the runner at exit)."""
    root = os.environ.get("WDMC_SCRATCH")
    if not root:
        base = "/dev/shm" if os.path.isdir("/dev/shm") and os.access("/dev/shm", os.W_OK) else "/tmp"
        root = os.path.join(base, f"wdmc-{os.getpid()}")
    return os.path.join(root, str(os.getpid()))


def build_tree(root, tree):
    for p in sorted(tree, key=lambda p: p.count("/")):
        full = os.path.join(root, p)
        if tree[p] == "d":
            os.mkdir(full)
        else:
            open(full, "w").close()


def walk_tree(root):
    out = {}
    for dp, dns, fns in os.walk(root):
        rel = os.path.relpath(dp, root)
        rel = "" if rel == "." else rel
        for n in dns:
            out[(rel + "/" + n) if rel else n] = "d"
        for n in fns:
            out[(rel + "/" + n) if rel else n] = "f"
    return out


# real names for cfg.names == "prefix": a sibling's name starts with another entry's name
PREFIX_NAMES = {"d": "a", "e": "ab", "f": "a.f", "g": "ab.f"}
PREFIX_UNMAP = {v: k for k, v in PREFIX_NAMES.items()}


class HistoryHarness(ex.Harness):
    """One history = (initial tree, [(op, pace), ...]) under one configuration."""

    sched_kwargs = dict(max_steps=200000, only_seams=True, timer_deviations=False, switch_cost=1)

    def __init__(self, tree, history, cfg, name=None):
        self.tree0 = dict(tree)
        self.history = [(tuple(op), pace) for op, pace in history]
        self.cfg = cfg
        self.name = name or f"hist {cfg.tag()} tree={sorted(tree)} " + " ".join(
            f"{'.'.join(map(str, op))}|{pace}" for op, pace in self.history)
        if cfg.early or cfg.split_reads:
            self.sched_kwargs = dict(self.sched_kwargs, timer_deviations=True)

    # ------------------------------------------------------------------------------------------
    def mapname(self, p):
        """Universe path -> real relative name (C19 uses non-ASCII / undecodable names)."""
        if self.cfg.names == "prefix":
            return "/".join(PREFIX_NAMES.get(c, c) for c in p.split("/"))
        suffix = {"ascii": "", "utf8": "\u00e9", "undecodable": "\udcff"}[self.cfg.names]
        return "/".join(c + suffix for c in p.split("/")) if suffix else p

    def unmapname(self, p):
        if self.cfg.names != "prefix" or p is None:
            return p
        bang = p.startswith("!")
        q = "/".join(PREFIX_UNMAP.get(c, c) for c in p.lstrip("!").split("/"))
        return ("!" + q) if bang else q

    def perform(self, R, O, op, state):
        k = op[0]
        P = lambda p: os.path.join(R, self.mapname(p))
        if k == "mknod":
            os.mknod(P(op[1]))
        elif k == "mkdir":
            os.mkdir(P(op[1]))
        elif k == "makedirs":
            os.makedirs(P(op[1]))
        elif k == "mktree":
            os.makedirs(P("d/d"))
            open(P("d/f"), "w").close()
            open(P("d/d/f"), "w").close()
        elif k == "append":
            with open(P(op[1]), "a") as f:
                f.write("x")
        elif k == "truncate":
            os.truncate(P(op[1]), 0)
        elif k == "chmod":
            st = os.stat(P(op[1]))
            os.chmod(P(op[1]), _stat.S_IMODE(st.st_mode) ^ 0o010)
        elif k == "unlink":
            os.unlink(P(op[1]))
        elif k == "rmdir":
            os.rmdir(P(op[1]))
        elif k == "rmtree":
            shutil.rmtree(P(op[1]))
        elif k == "rename":
            os.rename(P(op[1]), P(op[2]))
        elif k == "move_out":
            dst = os.path.join(O, "m%d" % len(state["out"]))
            os.rename(P(op[1]), dst)
            state["out"].append(dst)
        elif k == "move_in_file":
            src = os.path.join(O, "nf%d" % state["n"])
            state["n"] += 1
            open(src, "w").close()
            os.rename(src, P(op[1]))
        elif k == "move_in_dir":
            src = os.path.join(O, "nd%d" % state["n"])
            state["n"] += 1
            os.mkdir(src)
            if op[2] == "tree":
                os.mkdir(os.path.join(src, self.mapname("d")))
                open(os.path.join(src, self.mapname("f")), "w").close()
            os.rename(src, P(op[1]))
        elif k == "mkdir_x":
            os.mkdir(P(op[1] + "/x"))
        elif k == "move_back":
            os.rename(state["out"][op[1]], P(op[2]))
        elif k == "out_touch":
            d = state["out"][op[1]]
            os.mknod(os.path.join(d, "x%d" % state["n"]))
            state["n"] += 1
        elif k == "out_rmtree":
            shutil.rmtree(state["out"][op[1]])
        elif k == "rmtree_root":
            shutil.rmtree(R)
        else:
            raise ValueError(op)

    def body(self, s):
        cfg = self.cfg
        ino = wd.mod("watchdog.observers.inotify")
        evm = wd.mod("watchdog.events")
        envshim.install()
        _counter[0] += 1
        base = os.path.join(scratch_base(), str(_counter[0]))
        shutil.rmtree(base, ignore_errors=True)
        R = os.path.join(base, "R")
        O = os.path.join(base, "O")
        os.makedirs(R)
        os.makedirs(O)
        shim = envshim.ShimState(seam_points=cfg.seam_points, faults=cfg.faults, split_reads=cfg.split_reads)
        s.env["shim"] = shim
        obs = None
        try:
            build_tree(R, {self.mapname(p): k for p, k in self.tree0.items()})
            events = []
            events2 = []
            cur = {"op": -1}
            Rb = os.fsencode(R)

            baseb = os.fsencode(base)

            def rel(p):
                if p == "" or p == b"":
                    return None
                b = os.fsencode(p)
                if not b.startswith(b"/"):
                    b = os.path.join(baseb, b)
                b = os.path.normpath(b)
                if b == Rb:
                    return ""
                if b.startswith(Rb + b"/"):
                    return self.unmapname(os.fsdecode(b[len(Rb) + 1:]))
                return "!" + os.fsdecode(b)

            def rec_into(lst):
                class Rec(evm.FileSystemEventHandler):
                    def on_any_event(self, event):
                        def under(p):   # textually under the watched path as it was given
                            b = os.fsencode(p)
                            return not b or b == given or b.startswith(given + b"/")
                        lst.append((cur["op"], type(event).__name__, rel(event.src_path), rel(event.dest_path),
                                    event.is_directory, event.is_synthetic,
                                    type(event.src_path).__name__ + "/" + type(event.dest_path).__name__,
                                    under(event.src_path) and under(event.dest_path)))
                return Rec()

            s.lib_creation = True
            obs = ino.InotifyObserver(generate_full_events=cfg.full)
            root_arg = R
            if cfg.root_form == "rel":
                os.chdir(base)
                root_arg = "R"
            elif cfg.root_form == "slash":
                root_arg = R + "/"
            elif cfg.root_form == "dot":
                root_arg = os.path.join(base, ".", "R")
            given = os.fsencode(root_arg).rstrip(b"/")
            if cfg.root_type == "bytes":
                root_arg = os.fsencode(root_arg)
            elif cfg.root_type == "path":
                import pathlib
                root_arg = pathlib.Path(root_arg)
            filt = [getattr(evm, n) for n in cfg.event_filter] if cfg.event_filter else None
            obs.schedule(rec_into(events), root_arg, recursive=cfg.recursive, event_filter=filt)
            if cfg.second_type:
                other = os.fsencode(root_arg) if cfg.second_type == "bytes" else os.fsdecode(os.fspath(root_arg))
                obs.schedule(rec_into(events2), other, recursive=cfg.recursive)
            if cfg.second_filter and cfg.prior_flat:
                # state shared between emitters (caches keyed by the filter) must not leak from one watch into another
                obs.schedule(rec_into([]), O, recursive=False, event_filter=[getattr(evm, n) for n in cfg.second_filter])
                obs.start()
                obs.schedule(rec_into(events2), root_arg, recursive=cfg.recursive,
                             event_filter=[getattr(evm, n) for n in cfg.second_filter])
            elif cfg.second_filter:
                obs.schedule(rec_into(events2), root_arg, recursive=cfg.recursive,
                             event_filter=[getattr(evm, n) for n in cfg.second_filter])
            if not (cfg.second_filter and cfg.prior_flat):
                obs.start()
            s.idle("drain")
            state = {"out": [], "n": 0}
            model = Model(self.tree0)
            for i, (op, pace) in enumerate(self.history):
                cur["op"] = i
                self.perform(R, O, op, state)
                model.apply(op)
                last = i == len(self.history) - 1
                if pace == "drain" or last:
                    s.idle("drain", allow_early=cfg.early and not last and pace == "drain-soft")
                elif pace == "settle":
                    s.idle("settle", allow_early=cfg.early)
                elif pace == "drain-soft":
                    s.idle("drain", allow_early=cfg.early)
            cur["op"] = len(self.history)
            final = None if model.root_gone else {self.unmapname(p): k for p, k in walk_tree(R).items()}
            book = self.bookkeeping(obs, R, O, state)
            emitter_alive = [e.is_alive() for e in obs.emitters]
            n_events = len(events)
            n_events2 = len(events2)
            probes = {}
            if cfg.probes and not model.root_gone:
                unmap = {self.mapname(p): p for p in ALL}
                dirs = [""] + sorted(p for p, k in final.items() if k == "d")
                for j, d in enumerate(dirs):
                    name = f"probe{j}"
                    os.mknod(os.path.join(R, self.mapname(d) if self.cfg.names == "prefix" else d, name))
                    probes[d] = (d + "/" + name) if d else name
                s.idle("drain")
            probe_events = events[n_events:]
            obs.stop()
            obs.join()
            leftover = shim.cleanup()
            return dict(events=events[:n_events], events2=events2[:n_events2], final=final, model=model.key(),
                        probes=probes, probe_events=probe_events, book=book, emitter_alive=emitter_alive,
                        shim_violations=list(shim.violations), leftover_fds=leftover,
                        root_gone=model.root_gone, calls=list(shim.calls))
        finally:
            try:
                if obs is not None and s.aborting:
                    pass
            finally:
                shim.cleanup()
                if cfg.root_form == "rel":
                    os.chdir("/")
                shutil.rmtree(base, ignore_errors=True)

    def bookkeeping(self, obs, R, O, state):
        """Canonical view of the library's watch maps against the kernel's watch list."""
        try:
            out = []
            for em in obs.emitters:
                buf = em._inotify
                if buf is None:
                    out.append("emitter-closed")
                    continue
                ino_obj = buf._inotify
                fd = ino_obj._inotify_fd
                kernel = {}
                with open(f"/proc/self/fdinfo/{fd}") as f:
                    for line in f:
                        if line.startswith("inotify wd:"):
                            parts = dict(x.split(":") for x in line.split()[1:4])
                            kernel[int(parts["wd"])] = int(parts["ino"], 16)
                by_ino = {}
                for top, label in ((R, ""), (O, "OUT")):
                    for dp, dns, _ in os.walk(top):
                        st = os.stat(dp)
                        r = os.path.relpath(dp, top)
                        by_ino[st.st_ino] = (label + ":" + r) if label else ("" if r == "." else r)
                Rb = os.fsencode(R)
                lib = {}
                for wd_, path in ino_obj._path_for_wd.items():
                    lib[wd_] = os.fsdecode(path[len(Rb) + 1:]) if path != Rb else ""
                row = {}
                for wd_ in sorted(set(kernel) | set(lib)):
                    row[wd_] = (lib.get(wd_, "<none>"),
                                by_ino.get(kernel.get(wd_), "<gone>") if wd_ in kernel else "<no-kernel-watch>")
                # both directions of the library's map, without the (history dependent) wd numbers
                fwd = sorted(((os.fsdecode(p[len(Rb) + 1:]) if p != Rb else ""), row.get(w, ("<none>", "<unknown-wd>")))
                             for p, w in ino_obj._wd_for_path.items())
                out.append((tuple(sorted(row.values())), tuple(fwd)))
            return tuple(out)
        except Exception as e:  # noqa: BLE001 - introspection is best effort; fall back to no merging
            return ("unavailable", type(e).__name__)

    def outcome(self, res):
        if res.value is None:
            return repr((res.abort and res.abort[0], res.errors))
        v = res.value
        return repr((v["events"], v["probe_events"], v["final"], res.abort and res.abort[0], res.errors))


# =================================================================================================
# oracles
# =================================================================================================
def replay_events(tree0, events, recursive):
    """C01: apply created / deleted / moved events with total, idempotent set semantics."""
    t = dict(tree0)
    if not recursive:
        t = {p: k for p, k in t.items() if "/" not in p}

    def remove(p):
        for q in [q for q in t if q == p or inside(q, p)]:
            del t[q]

    for _, cls, src, dest, is_dir, syn, *_rest in events:
        kind = "d" if is_dir else "f"
        if cls.endswith("CreatedEvent"):
            if src is not None and src != "" and not src.startswith("!"):
                t[src] = kind
        elif cls.endswith("DeletedEvent"):
            if src is not None and src != "":
                remove(src)
        elif cls.endswith("MovedEvent"):
            if src in (None, ""):      # half-empty move of the full emitter: arrival
                if dest not in (None, ""):
                    remove(dest) if t.get(dest) != kind else None
                    t[dest] = kind
            elif dest in (None, ""):   # departure
                remove(src)
            else:
                sub = {q: k for q, k in t.items() if q == src or inside(q, src)}
                if sub:
                    remove(dest)
                    for q, k in sub.items():
                        del t[q]
                    for q, k in sub.items():
                        t[dest + q[len(src):]] = k
                else:
                    # source unknown to the replay: treat as arrival of the destination
                    if t.get(dest) != kind:
                        remove(dest)
                    t[dest] = kind
    return t


def check_replay(h, res):
    """C01 oracle."""
    out = []
    v = res.value
    if v is None or v["root_gone"]:
        return out
    # the probe files created after the final drain are ordinary file operations of the history:
    # replaying their events as well checks that every directory still reports under its real name
    got = replay_events(h.tree0, v["events"] + v["probe_events"], h.cfg.recursive)
    final = dict(v["final"])
    for pp in v["probes"].values():
        final[pp] = "f"
    if not h.cfg.recursive:
        final = {p: k for p, k in final.items() if "/" not in p}
    if got != final:
        missing = sorted(set(final) - set(got))
        extra = sorted(set(got) - set(final))
        wrong = sorted(p for p in set(got) & set(final) if got[p] != final[p])
        out.append(dict(kind="replay-mismatch",
                        msg=f"replaying the event stream gives {sorted(got.items())}, the tree on disk is "
                            f"{sorted(final.items())} (missing {missing}, stale {extra}, wrong kind {wrong}); "
                            f"history={h.name}; events={v['events']}",
                        fp="replay-mismatch", detail=dict(missing=missing, extra=extra, wrong=wrong)))
    return out


def check_probes(h, res):
    """C02 oracle: every existing directory reports a change under its real path (recursive);
    root only for a non-recursive watch."""
    out = []
    v = res.value
    if v is None or v["root_gone"] or not v["probes"]:
        return out
    created = {(e[2]) for e in v["probe_events"] if e[1] == "FileCreatedEvent"}
    silent = {d for d, p in v["probes"].items() if p not in created}
    for d, p in v["probes"].items():
        if h.cfg.recursive or d == "":
            if p not in created:
                if d and parent(d) in silent and h.cfg.recursive:
                    continue   # below a directory that is itself not covered: one root cause, reported there
                wrong = [e[2] for e in v["probe_events"] if e[1] == "FileCreatedEvent" and e[2] and
                         e[2].rsplit("/", 1)[-1] == p.rsplit("/", 1)[-1]]
                kind = "probe-wrong-path" if wrong else "probe-missing"
                out.append(dict(kind=kind, msg=f"a file created in existing directory '{d}' was "
                                               f"{'reported as ' + repr(wrong) if wrong else 'not reported'} "
                                               f"(expected {p}); history={h.name}; bookkeeping={v['book']}",
                                fp=kind, detail=dict(dir=d)))
        else:
            if any(e[2] == p for e in v["probe_events"]):
                out.append(dict(kind="probe-nonrecursive-deep", msg=f"non-recursive watch reported {p}; history={h.name}",
                                fp="probe-nonrecursive-deep", detail=dict(dir=d)))
    return out


# =================================================================================================
# history enumeration and state-graph search
# =================================================================================================
def bursts(model, max_len, respect_pacing, outside_ops=True, root_delete=False, paces=("burst", "settle")):
    """All bursts of 1..max_len operations applicable in `model`, with intra-burst pacing, simplest first.
    Yields lists [(op, pace), ...] whose last pace is 'drain'."""
    out = []

    def rec(m, hot, prefix):
        for op in m.ops(outside_ops=outside_ops, root_delete=root_delete):
            if prefix and respect_pacing and not pacing_ok(hot, m, op):
                continue
            m2 = m.copy()
            info = m2.apply(op)
            out.append((len(prefix) + 1, prefix + [(op, "drain")]))
            if len(prefix) + 1 < max_len and op[0] != "rmtree_root":
                for pace in paces:
                    rec(m2, hot | info["hot"], prefix + [(op, pace)])

    rec(model, set(), [])
    out.sort(key=lambda x: x[0])
    return [b for _, b in out]


_JOB = {}


def fs_workers(ctx):
    """Executions mostly sleep in the kernel (closing an inotify instance waits for an SRCU grace period), so the
    pool is oversubscribed - but every execution holds up to two inotify instances and the per-user limit
    (fs.inotify.max_user_instances, often 128) must never be reached: that would be an environment fault."""
    if "WDMC_WORKERS" in os.environ:
        return ctx.workers
    limit = 128
    try:
        with open("/proc/sys/fs/inotify/max_user_instances") as f:
            limit = int(f.read())
        if limit < 1024:
            try:
                with open("/proc/sys/fs/inotify/max_user_instances", "w") as f:
                    f.write("1024")
                limit = 1024
            except OSError:
                pass
    except OSError:
        pass
    return max(4, min(4 * (os.cpu_count() or 4), limit // 4))


def _run_job(job):
    tree0, hist, cfg_i = job
    cfg = _JOB["cfgs"][cfg_i]
    h = HistoryHarness(tree0, hist, cfg)
    res = ex.run_one(h, b"")
    vs = list(h.base_check(res))
    for f in _JOB["checks"]:
        vs.extend(f(h, res))
    key = None
    if res.value is not None:
        book = res.value["book"]
        if book and book[0] == "unavailable":
            book = ("history", repr(hist))     # introspection failed: no merging (slower, never unsound)
        key = (res.value["model"], book)
    nev = len(res.value["events"]) if res.value else 0
    return dict(vs=vs, key=key, steps=res.steps, outcome=ex._digest(h.outcome(res)), name=h.name, nev=nev)


def _init_pool(counter):
    with counter.get_lock():
        idx = counter.value
        counter.value += 1
    ex.pin_cpu(idx)


def graph_search(ctx, cfgs, trees, checks, *, burst_len, depth, respect_pacing, root_delete=False,
                 cap=None, label="graph", classify=None):
    """BFS over drained states.  Nodes are merged on (tree, watch bookkeeping) per configuration; every edge
    is executed by replaying its whole history on a fresh observer."""
    import multiprocessing

    wd.load()
    envshim.install()
    _JOB.update(cfgs=cfgs, checks=checks)
    mp = multiprocessing.get_context("fork")
    executions = 0
    states = 0
    steps = 0
    outcomes = set()
    samples = []
    capped = False
    with mp.Pool(fs_workers(ctx), initializer=_init_pool, initargs=(mp.Value("i", 0),)) as pool:
        for ci, cfg in enumerate(cfgs):
            seen = set()
            frontier = []
            jobs = [(t, [], ci) for t in trees]
            res = pool.map(_run_job, jobs, chunksize=2)
            for (t, hist, _), r in zip(jobs, res):
                executions += 1
                steps += r["steps"]
                _record(ctx, r, classify, t, hist, cfg)
                if r["key"] is not None and r["key"] not in seen:
                    seen.add(r["key"])
                    frontier.append((t, hist))
            for level in range(depth):
                jobs = []
                for t, hist in frontier:
                    m = Model(t)
                    for op, _ in hist:
                        m.apply(op)
                    if m.root_gone:
                        continue
                    for b in bursts(m, burst_len, respect_pacing, outside_ops=cfg.outside_ops, root_delete=root_delete):
                        jobs.append((t, hist + b, ci))
                if cap and executions + len(jobs) > cap:
                    jobs = jobs[: max(0, cap - executions)]
                    capped = True
                tl = os.environ.get("WDMC_TIME_LIMIT")
                if tl and ctx.elapsed() > float(tl) * 4:
                    jobs = []
                    capped = True
                nxt = []
                for (t, hist, _), r in zip(jobs, pool.imap(_run_job, jobs, chunksize=4)):
                    executions += 1
                    steps += r["steps"]
                    outcomes.add(r["outcome"])
                    bad = _record(ctx, r, classify, t, hist, cfg)
                    if len(samples) < 2 and len(hist) >= 2 and r["nev"]:
                        samples.append(dict(history=r["name"], events=r["nev"]))
                    if bad:
                        continue   # diverged from the reference: not extended
                    if r["key"] is not None and r["key"] not in seen:
                        seen.add(r["key"])
                        nxt.append((t, hist))
                frontier = nxt
                if not frontier or capped:
                    break
            states += len(seen)
    ctx.executions += executions
    ctx.states += states
    ctx.transitions += executions
    ctx.capped |= capped
    ctx.parts.append(dict(part=label, configurations=[c.tag() for c in cfgs], initial_trees=len(trees),
                          burst_len=burst_len, depth=depth, pacing_condition=respect_pacing, executions=executions,
                          drained_states=states, distinct_outcomes=len(outcomes), scheduler_steps=steps, capped=capped))
    for smp in samples:
        if len(ctx.samples) < 5:
            ctx.samples.append(smp)


def _record(ctx, r, classify, tree0, hist, cfg):
    bad = False
    for v in r["vs"]:
        bad = True
        v = dict(v)
        if classify is not None and not v.get("infra"):
            v["fp"] = classify(v, tree0, hist, cfg)
        v.setdefault("prefix", [])
        v["harness"] = r["name"]
        v["tree0"] = tree0
        v["history"] = [[list(op), pace] for op, pace in hist]
        v["cfg"] = cfg.tag()
        ctx.add_violation(v)
    return bad


# =================================================================================================
# root-cause classification (fingerprints of recorded findings must not depend on incidental operations)
# =================================================================================================
def provenance(path, hist):
    """How did the directory at `path` (final name) come to be there?  Walks the history backwards.
    Returns (origin, renamed_before_first_drain, chain)."""
    chain = []
    p = path
    origin = "initial"
    drained_since = False   # was there a drain between this op and the next op of the chain?
    renamed_undrained = False
    ops = list(hist)
    for i in range(len(ops) - 1, -1, -1):
        op, pace = ops[i]
        k = op[0]
        hit = None
        if k == "rename" and (p == op[2] or inside(p, op[2])):
            p = op[1] + p[len(op[2]):]
            hit = "rename"
        elif k == "move_in_dir" and (p == op[1] or inside(p, op[1])):
            origin = "move_in_dir"
            chain.append(("move_in_dir", pace))
            break
        elif k == "move_back" and (p == op[2] or inside(p, op[2])):
            origin = "move_back"
            chain.append(("move_back", pace))
            break
        elif k == "mkdir" and p == op[1]:
            origin = "mkdir"
            chain.append(("mkdir", pace))
            break
        elif k == "mkdir_x" and p == op[1] + "/x":
            origin = "mkdir"
            chain.append(("mkdir_x", pace))
            break
        elif k == "makedirs" and (p == op[1] or p == parent(op[1])):
            origin = "makedirs"
            chain.append(("makedirs", pace))
            break
        elif k == "mktree" and p in ("d", "d/d"):
            origin = "mkdir"
            chain.append(("mktree", pace))
            break
        if hit:
            chain.append((hit, pace))
    chain.reverse()
    if origin != "initial" and len(chain) > 1:
        # was it (or an ancestor) renamed before its arrival had been drained?
        seen_origin = False
        for op, pace in ops:
            if not seen_origin:
                if op[0] == origin and (op[1] == p or (origin == "makedirs" and parent(op[1]) == p)
                                        or (origin == "move_in_dir" and inside(p, op[1]))):
                    seen_origin = True
                    if pace in ("drain", "drain-soft"):
                        break
                continue
            if op[0] == "rename":
                renamed_undrained = True
                break
            if pace in ("drain", "drain-soft"):
                break
    return origin, renamed_undrained, chain


STALE_CLASS = ("a directory that was moved out of the tree keeps its watch and map entry; an entry that re-uses its old "
               "name is confused with it")


def _touches_stale_name(path, hist):
    """Does the directory's provenance chain pass through a name that a directory held when it was moved out earlier?"""
    ops = [op for op, _ in hist]
    paces = [p for _, p in hist]
    p = path
    names = {p}
    chain_idx = []
    for i in range(len(ops) - 1, -1, -1):
        op = ops[i]
        if op[0] == "rename" and (p == op[2] or inside(p, op[2])):
            p = op[1] + p[len(op[2]):]
            names.add(p)
            chain_idx.append(i)
        elif op[0] == "move_back" and (p == op[2] or inside(p, op[2])):
            chain_idx.append(i)
            break
        elif op[0] in ("mkdir", "makedirs", "mktree", "move_in_dir") and (p == op[1] or inside(p, op[1]) or p == parent(op[1])):
            chain_idx.append(i)
            break
    for i, op in enumerate(ops):
        if op[0] != "move_out":
            continue
        out = op[1]
        if not any(n == out or inside(n, out) or inside(out, n) for n in names):
            continue
        if any(j > i for j in chain_idx):
            return True
    return False


COALESCE_CLASS = ("two renames onto the same name without a drain in between: inotify coalesces the second IN_MOVED_TO into the "
                  "first (its event comparison ignores the cookie), the library never learns about the replacement")


def _same_dest_twice(path, hist):
    """Is `path` the destination of two consecutive arrivals (rename / move in) with no drain in between?"""
    last = None
    for op, pace in hist:
        dest = op[2] if op[0] in ("rename", "move_back") else (op[1] if op[0] in ("move_in_dir",) else None)
        if dest is not None and dest == path and last == path:
            return True
        if dest is not None:
            last = dest
        elif op[0] not in ("chmod",):
            # any other notification on that parent would separate the two MOVED_TO records; stay conservative
            # and only treat directly adjacent arrivals as coalescible
            last = None
        if pace in ("drain", "drain-soft"):
            last = None
    return False


def classify_dir(path, hist):
    if _same_dest_twice(path, hist):
        return COALESCE_CLASS
    if any(op[0] == "move_out" for op, _ in hist) and _touches_stale_name(path, hist):
        return STALE_CLASS
    origin, undrained, chain = provenance(path, hist)
    if origin == "move_in_dir":
        if undrained:
            return "directory moved in and renamed (itself or an ancestor) before its arrival was processed is not watched"
        return "directory moved in from outside the tree is not watched"
    if origin in ("mkdir", "makedirs") and undrained:
        own = any(k == "rename" for k, _ in chain[1:]) and _own_rename(path, hist)
        if _ancestor_renamed_undrained(path, hist):
            return "directory created below a directory that was renamed before the creation was processed is not watched"
        if own and _name_reused(path, hist):
            return ("directory created and renamed, its first name re-used by another entry before the creation was "
                    "processed, is not watched")
        if own:
            return "directory created and renamed before its creation was processed is not watched"
        return "directory created below a directory that was renamed before the creation was processed is not watched"
    return "dir-provenance=" + ">".join(f"{k}|{p}" for k, p in chain) if chain else "dir-provenance=initial"


def _ancestor_renamed_undrained(path, hist):
    """After the directory was created and before the next drain, was one of its ancestors renamed?"""
    p = path
    ops = list(hist)
    trail = []   # (index, renamed the directory itself?)
    i0 = None
    for i in range(len(ops) - 1, -1, -1):
        op = ops[i][0]
        if op[0] == "rename" and (p == op[2] or inside(p, op[2])):
            trail.append((i, p == op[2]))
            p = op[1] + p[len(op[2]):]
        elif op[0] in ("mkdir", "makedirs", "mktree") and (p == op[1] or p == parent(op[1])):
            i0 = i
            break
    if i0 is None:
        return False
    drained_at = None
    for i in range(i0, len(ops)):
        if ops[i][1] in ("drain", "drain-soft"):
            drained_at = i
            break
    return any((not own) and (drained_at is None or i <= drained_at) for i, own in trail)


def _name_reused(path, hist):
    """Was a name that the directory held (the one it was created under, or one it passed through while being renamed)
    taken by ANOTHER entry before a drain?"""
    p = path
    ops = list(hist)
    i0 = None
    own = set()           # indices of the operations that moved this very directory
    held = []             # (name, index of the operation after which the directory no longer bore it)
    for i in range(len(ops) - 1, -1, -1):
        op = ops[i][0]
        if op[0] == "rename" and (p == op[2] or inside(p, op[2])):
            own.add(i)
            p = op[1] + p[len(op[2]):]
            held.append((p, i))
        elif op[0] in ("mkdir", "makedirs", "mktree") and (p == op[1] or p == parent(op[1])):
            i0 = i
            own.add(i)
            break
    if i0 is None:
        return False
    for j in range(i0 + 1, len(ops)):
        op, pace = ops[j]
        if j not in own:
            dests = {op[2]} if op[0] in ("rename", "move_back") else (
                {op[1]} if op[0] in ("mknod", "mkdir", "move_in_file", "move_in_dir") else (
                    {op[1], parent(op[1])} if op[0] == "makedirs" else (set(MKTREE) if op[0] == "mktree" else set())))
            if any(name in dests and j > left for name, left in held):
                return True
        if pace in ("drain", "drain-soft"):
            break
    return False


def _own_rename(path, hist):
    """Did the first rename after the creation rename the directory itself (not an ancestor)?"""
    p = path
    first = None
    for op, _ in reversed(list(hist)):
        if op[0] == "rename" and (p == op[2] or inside(p, op[2])):
            first = (p == op[2])
            p = op[1] + p[len(op[2]):]
        elif op[0] in ("mkdir", "makedirs") and (p == op[1] or p == parent(op[1])):
            break
    return bool(first)


def classify(v, tree0, hist, cfg):
    """Fingerprint = verdict kind + configuration class + root-cause class of the minimal evidence."""
    kind = v["fp"]
    d = v.get("detail") or {}
    cls = "rec" if cfg.recursive else "flat"
    if kind in ("probe-missing", "probe-wrong-path"):
        return f"{kind} {cls}: {classify_dir(d.get('dir', ''), hist)}"
    if kind == "replay-mismatch":
        touched_out = any(op[0] == "out_touch" for op, _ in hist)
        extra, missing = d.get("extra") or [], d.get("missing") or []
        if extra and touched_out and not missing:
            return f"{kind} {cls}: event reported for an entry of a directory that was moved out of the tree"
        if missing:
            p = missing[0]
            par = parent(p)
            while par:
                c = classify_dir(par, hist)
                if not c.startswith("dir-provenance"):
                    return f"{kind} {cls}: entry missing below a {c}"
                par = parent(par)
            c = classify_dir(p, hist)
            if not c.startswith("dir-provenance"):
                return f"{kind} {cls}: entry missing below a {c}"
        sig = " ".join(f"{op[0]}|{p}" for op, p in hist[-2:])
        return f"{kind} {cls}: other [{sig}] missing={len(missing)} stale={len(extra)}"
    return f"{kind} {cls}"


def replay_record(rec, checks):
    """Re-run one recorded history (replay file) and print what happens."""
    wd.load()
    envshim.install()
    tag = rec.get("cfg", "rec-str")
    cfg = Config(recursive=not tag.startswith("flat"),
                 root_type="bytes" if "-bytes" in tag else ("path" if "-path" in tag else "str"),
                 full="-full" in tag,
                 root_form="rel" if "-rel" in tag else ("slash" if "-slash" in tag else ("dot" if "-dot" in tag else "abs")),
                 names=(tag.split("-names:")[1].split("-")[0] if "-names:" in tag else "ascii"),
                 second_filter=(tag.split("-filter=")[1].split("-faults")[0].split("+") if "-filter=" in tag else None),
                 early="-early" in tag, split_reads="-split" in tag, prior_flat="-priorflat" in tag,
                 second_type=(tag.split("-twin:")[1].split("-")[0] if "-twin:" in tag else None))
    hist = [(tuple(op), pace) for op, pace in rec["history"]]
    h = HistoryHarness(rec["tree0"], hist, cfg)
    a = ex.run_one(h, bytes(rec.get("prefix") or []), record_desc=True)
    b = ex.run_one(h, bytes(rec.get("prefix") or []))
    if h.outcome(a) != h.outcome(b):
        print("replay is not deterministic (infrastructure error)")
        return 2
    print("history:", h.name)
    print("events:", a.value and a.value["events"])
    print("probe events:", a.value and a.value["probe_events"])
    print("final tree:", a.value and a.value["final"], "bookkeeping:", a.value and a.value["book"])
    print("thread errors:", a.errors, "abort:", a.abort)
    vs = list(h.base_check(a))
    for f in checks:
        vs.extend(f(h, a))
    for v in vs:
        print("VERDICT:", v["fp"], "-", v["msg"][:800])
    if vs:
        print(f"VIOLATION property={rec['property']} replay=(this file)")
        return 1
    print("no violation on this tree")
    return 0


class _DevHarness(HistoryHarness):
    checks = ()

    def check(self, res):
        vs = list(self.base_check(res))
        for f in self.checks:
            vs.extend(f(self, res))
        for v in vs:
            if not v.get("infra"):
                v["detail_fp"] = v["fp"]
                v["fp"] = classify(v, self.tree0, self.history, self.cfg)
                v["tree0"] = self.tree0
                v["history"] = [[list(op), pace] for op, pace in self.history]
                v["cfg"] = self.cfg.tag()
        if not vs and res.value is not None and res.cost > 0 and suspicious(res.value["book"]):
            # not a verdict: a seed for continue_from_suspicious()
            vs.append(dict(kind="suspicious-state", pseudo=True, msg="watch map disagrees with the kernel",
                           fp="suspicious " + ex._digest(repr((res.value["model"], res.value["book"]))).hex(),
                           tree0=self.tree0, history=[[list(op), pace] for op, pace in self.history], cfg=self.cfg.tag()))
        return vs


def deviation_search(ctx, checks, *, tier, respect_pacing, root_delete=False, max_jobs=None, outside_ops=False):
    """Schedule / environment deviations on top of single bursts: the operator may resume early at any library
    seam call during a non-final wait, the inotify buffer may be split at any record boundary, the pairing delay
    may expire early."""
    wd.load()
    envshim.install()
    q = tier == "quick"
    trees = small_trees(1 if q else 2)
    cfg = Config(early=True, split_reads=True, probes=True, outside_ops=outside_ops)
    jobs = []
    H = type("DevHarness", (_DevHarness,), dict(checks=tuple(checks)))
    for t in trees:
        m = Model(t)
        for b in bursts(m, 2, respect_pacing, root_delete=root_delete, paces=("settle",), outside_ops=outside_ops):
            if len(b) < 2 and not q:
                continue
            if q and len(b) == 2 and not any(op[0] in ("rename", "move_out", "move_in_dir", "mkdir", "makedirs", "rmtree")
                                             for op, _ in b):
                continue
            jobs.append((H(t, b, cfg), 1 if q else 2))
    if max_jobs:
        jobs = jobs[:max_jobs]
    ctx.explore_many(jobs, cap=150_000 if q else 5_000_000, selftest=False, workers=fs_workers(ctx))
    seeds = take_suspicious(ctx)
    cont_cfg = Config(early=True, split_reads=True, probes=True, outside_ops=outside_ops)
    continue_from_suspicious(ctx, checks, seeds, cont_cfg, depth=2 if q else 3, cap=60_000 if q else 1_000_000,
                             respect_pacing=respect_pacing)


def take_suspicious(ctx):
    """Remove the pseudo records from ctx.violations and return them as continuation seeds."""
    seeds = []
    for fp in [fp for fp, v in ctx.violations.items() if v.get("pseudo")]:
        v = ctx.violations.pop(fp)
        seeds.append((v["tree0"], [(tuple(op), p) for op, p in v["history"]], v.get("prefix") or []))
    return seeds


def check_alive_and_reported(h, res):
    """C07 oracle: monitoring does not die - no library thread ends with an error, and a later change in every
    existing directory is still reported (by name; the path is C02's business); root deletion is reported once
    and stops the emitter."""
    out = []
    v = res.value
    if v is None or res.errors:
        return out          # thread errors are reported by base_check (root cause)
    if v["root_gone"]:
        n = sum(1 for e in v["events"] if e[1] == "DirDeletedEvent" and e[2] == "")
        if n != 1:
            out.append(dict(kind="root-delete-count", msg=f"{n} DirDeletedEvent(root) delivered after the root was "
                                                          f"deleted (expected exactly 1); history={h.name}; events={v['events']}",
                            fp=f"root-delete-count={min(n, 2)}"))
        if any(v["emitter_alive"]):
            out.append(dict(kind="emitter-alive-after-root-delete", msg=f"emitter thread still alive after root deletion; "
                                                                      f"history={h.name}", fp="emitter-alive-after-root-delete"))
        return out
    names = {e[2].rsplit("/", 1)[-1] for e in v["probe_events"] if e[1] == "FileCreatedEvent" and e[2]}
    silent = {d for d, p in v["probes"].items() if p.rsplit("/", 1)[-1] not in names}
    for d, p in v["probes"].items():
        if (h.cfg.recursive or d == "") and p.rsplit("/", 1)[-1] not in names:
            if d and parent(d) in silent:
                continue   # below a directory that is itself not covered: one root cause, reported there
            out.append(dict(kind="change-unreported", msg=f"after the history a file created in directory '{d}' was not "
                                                          f"reported at all; history={h.name}; bookkeeping={v['book']}",
                            fp="probe-missing", detail=dict(dir=d)))
    if v["shim_violations"]:
        out.append(dict(kind="fd-misuse", msg=f"{v['shim_violations']}; history={h.name}", fp="fd-misuse " + v["shim_violations"][0][0]))
    return out


# =================================================================================================
# C03: per-operation contract (required / allowed events) and soundness of every event
# =================================================================================================
def _flav(kind):
    return "Dir" if kind == "d" else "File"


def contract(m, op, cfg):
    """(required, allowed) sets of (class name, src, dest, synthetic) for operation `op` applied in model `m`
    (state before the operation), for configuration cfg.  Paths are root-relative ('' = root, None = empty)."""
    rec, full = cfg.recursive, cfg.full
    k = op[0]
    req, alw = set(), set()

    def ev(cls, src, dest=None, syn=False):
        return (cls, src, dest, syn)

    def dm(p):
        return ev("DirModifiedEvent", p)

    def visible(p):
        return rec or (p is not None and "/" not in p)

    def arrive(p, kind, sub, *, moved_in):
        """Entry p (with subtree `sub`: rel->kind) appears."""
        r, a = set(), set()
        if not visible(p):
            return r, a
        if moved_in and full:
            r.add(ev(_flav(kind) + "MovedEvent", None, p))
        else:
            r.add(ev(_flav(kind) + "CreatedEvent", p))
        r.add(dm(parent(p)))
        if rec and kind == "d":
            for q, kk in sub.items():
                if moved_in:
                    r.add(ev(_flav(kk) + "CreatedEvent", p + "/" + q, None, True))
                else:
                    r.add(ev(_flav(kk) + "CreatedEvent", p + "/" + q))
                    r.add(dm(parent(p + "/" + q)))
                # either way of learning about a descendant is acceptable
                a.add(ev(_flav(kk) + "CreatedEvent", p + "/" + q, None, True))
                a.add(ev(_flav(kk) + "CreatedEvent", p + "/" + q))
                a.add(dm(parent(p + "/" + q)))
        return r, a

    def depart(p, kind, *, moved_out):
        r, a = set(), set()
        if not visible(p):
            return r, a
        if moved_out and full:
            r.add(ev(_flav(kind) + "MovedEvent", p, None))
        else:
            r.add(ev(_flav(kind) + "DeletedEvent", p))
        r.add(dm(parent(p)))
        return r, a

    if k == "mknod":
        req, alw = arrive(op[1], "f", {}, moved_in=False)
    elif k == "mkdir":
        req, alw = arrive(op[1], "d", {}, moved_in=False)
    elif k == "makedirs":
        top = parent(op[1])
        req, alw = arrive(top, "d", {op[1].rsplit("/", 1)[1]: "d"}, moved_in=False)
    elif k == "mktree":
        req, alw = arrive("d", "d", {"d": "d", "f": "f", "d/f": "f"}, moved_in=False)
        if rec:
            # files created with open(): opened/closed events are welcome as well
            for q in ("d/f", "d/d/f"):
                alw |= {ev("FileOpenedEvent", q), ev("FileClosedEvent", q), ev("FileModifiedEvent", q)}
    elif k == "append":
        p = op[1]
        if visible(p):
            req = {ev("FileOpenedEvent", p), ev("FileModifiedEvent", p), ev("FileClosedEvent", p), dm(parent(p))}
    elif k == "truncate":
        p = op[1]
        if visible(p):
            req = {ev("FileModifiedEvent", p)}
            alw = {dm(parent(p))}
    elif k == "chmod":
        p = op[1]
        if visible(p):
            req = {ev(_flav(m.tree[p]) + "ModifiedEvent", p)}
    elif k == "unlink":
        req, alw = depart(op[1], "f", moved_out=False)
    elif k == "rmdir":
        req, alw = depart(op[1], "d", moved_out=False)
        alw.add(dm(op[1]))
    elif k == "rmtree":
        p = op[1]
        sub = m.subtree(p)
        req, alw = depart(p, "d", moved_out=False)
        if visible(p):
            alw.add(dm(p))
        if rec:
            for q, kk in sub.items():
                req.add(ev(_flav(kk) + "DeletedEvent", q))
                req.add(dm(parent(q)))
                if kk == "d":
                    alw.add(dm(q))
    elif k == "rename":
        a, b = op[1], op[2]
        kind = m.tree[a]
        sub = {q[len(a) + 1:]: kk for q, kk in m.subtree(a).items()}
        va, vb = visible(a), visible(b)
        if va and vb:
            req.add(ev(_flav(kind) + "MovedEvent", a, b))
            req.add(dm(parent(a)))
            req.add(dm(parent(b)))
            if rec and kind == "d":
                for q, kk in sub.items():
                    req.add(ev(_flav(kk) + "MovedEvent", a + "/" + q, b + "/" + q, True))
            # timing variants the library is entitled to: unpaired halves
            r1, a1 = depart(a, kind, moved_out=True)
            r2, a2 = arrive(b, kind, sub, moved_in=True)
            alw |= r1 | a1 | r2 | a2
            r1, a1 = depart(a, kind, moved_out=False)
            r2, a2 = arrive(b, kind, sub, moved_in=False)
            alw |= {e for e in r1 | r2 if e[0].endswith(("DeletedEvent", "CreatedEvent"))}
        elif va:
            req, alw = depart(a, kind, moved_out=True)
        elif vb:
            req, alw = arrive(b, kind, sub, moved_in=True)
        if b in m.tree and m.tree[b] == "d" and visible(b):
            alw.add(dm(b))     # the replaced (empty) directory itself
    elif k == "move_out":
        req, alw = depart(op[1], m.tree[op[1]], moved_out=True)
    elif k == "move_in_file":
        req, alw = arrive(op[1], "f", {}, moved_in=True)
    elif k == "move_in_dir":
        sub = {"d": "d", "f": "f"} if op[2] == "tree" else {}
        req, alw = arrive(op[1], "d", sub, moved_in=True)
    elif k == "move_back":
        o = m.outside[op[1]]
        req, alw = arrive(op[2], o["kind"], dict(o["sub"]), moved_in=True)
    elif k in ("out_touch", "out_rmtree"):
        pass   # entries outside the watched scope: nothing may be reported
    elif k == "rmtree_root":
        req, alw = set(), None   # C07's business
    return req, (None if alw is None else (alw | req))


def check_contract(h, res):
    """C03: completeness of a single drained operation's contract + soundness of every event of the history."""
    out = []
    v = res.value
    if v is None or v["root_gone"] or res.errors:
        return out
    cfg = h.cfg
    m = Model(h.tree0)
    allowed_union = set()
    per_op = []
    prev_drained = True
    for i, (op, pace) in enumerate(h.history):
        req, alw = contract(m, op, cfg)
        drained = pace in ("drain", "drain-soft") or i == len(h.history) - 1
        per_op.append((op, req, alw, prev_drained and drained))
        if alw is not None:
            allowed_union |= alw
        m.apply(op)
        prev_drained = drained
    evs = [e for e in v["events"]]

    def sig(e):
        return (e[1], e[2], e[3], e[5])

    # flavour consistency
    for e in evs:
        if e[1].startswith("Dir") != bool(e[4]):
            out.append(dict(kind="flavour-flag", msg=f"{e} has is_directory={e[4]}; history={h.name}", fp="flavour-flag"))
    # soundness
    for e in evs:
        if len(e) > 7 and not e[7]:
            out.append(dict(kind="unjustified-event", msg=f"event {e} does not lie under the watched path as given; history={h.name}",
                            fp=f"unjustified event: path not under the watched path as given (form={cfg.root_form})"))
            break
    for e in evs:
        s_ = sig(e)
        if s_ not in allowed_union:
            cls = e[1]
            why = "phantom"
            if any(x is not None and x.startswith("!") for x in (e[2], e[3])):
                why = "path-outside-root"
            moved_out_dirs = [o[1] for o, _ in h.history if o[0] == "move_out"]
            during_outside_op = 0 <= e[0] < len(h.history) and h.history[e[0]][0][0] in ("out_touch", "out_rmtree")
            if during_outside_op or (
                    any(e[2] is not None and (e[2] == d or inside(e[2], d)) for d in moved_out_dirs) and
                    any(o[0] in ("out_touch", "out_rmtree") for o, _ in h.history)):
                why = "event for an entry of a directory that was moved out of the tree"
            elif e[5]:
                why = "unjustified synthetic event"
            out.append(dict(kind="unjustified-event",
                            msg=f"event {e} is not explained by the history; history={h.name}; all events={evs}",
                            fp=(f"unjustified event: {why}" if why.startswith("event for an entry") else
                                f"unjustified {cls.replace('File', 'X').replace('Dir', 'X')}: {why}"),
                            detail=dict(event=list(s_))))
            break
    # completeness for operations issued one at a time
    deviated = getattr(res, "points", None) is not None and res.cost > 0
    for i, (op, req, alw, single) in enumerate(per_op):
        if not single or alw is None:
            continue
        got = {sig(e) for e in evs if e[0] == i}
        if deviated:
            # under a deviating schedule (slow reader, split kernel buffer, early delay expiry) a rename may
            # legitimately come out as its two unpaired halves: demand one of the two complete descriptions
            req = set(req)
            for e in list(req):
                if e[0].endswith("MovedEvent") and e[1] is not None and e[2] is not None:
                    fl = e[0][: -len("MovedEvent")]
                    halves = [{(fl + "DeletedEvent", e[1], None, False), (fl + "MovedEvent", e[1], None, False)},
                              {(fl + "CreatedEvent", e[2], None, e[3]), (fl + "CreatedEvent", e[2], None, False),
                               (fl + "MovedEvent", None, e[2], False)}]
                    if e not in got and all(h & got for h in halves):
                        req.discard(e)
                        if not e[3]:
                            req = {x for x in req if not (x[0].endswith("MovedEvent") and x[3])}
        missing = req - got
        extra = got - alw
        if missing:
            mm = sorted(missing, key=repr)[0]
            out.append(dict(kind="contract-missing",
                            msg=f"operation {op} (issued alone, drained) did not produce required {sorted(missing, key=repr)}; "
                                f"got {sorted(got, key=repr)}; history={h.name}",
                            fp=f"contract-missing {op[0]}: {mm[0]}{' synthetic' if mm[3] else ''}"))
        if extra and op[0] in ("out_touch", "out_rmtree"):
            continue   # reported by the soundness clause above (one root cause, one fingerprint)
        if extra:
            xx = sorted(extra, key=repr)[0]
            out.append(dict(kind="contract-extra",
                            msg=f"operation {op} (issued alone, drained) produced {sorted(extra, key=repr)} outside its contract; "
                                f"got {sorted(got, key=repr)}; history={h.name}",
                            fp=f"contract-extra {op[0]}: {xx[0]}{' synthetic' if xx[3] else ''}"))
    return out


def check_filter(h, res):
    """C11: the filtered watch delivers exactly the unfiltered stream projected onto the filter's classes."""
    out = []
    v = res.value
    if v is None or res.errors or not h.cfg.second_filter:
        return out
    evm = wd.mod("watchdog.events")
    fcls = tuple(getattr(evm, n) for n in h.cfg.second_filter)

    def sig(e):
        return (e[1], e[2], e[3], e[5])

    def collapse(seq):
        o = []
        for x in seq:
            if not o or o[-1] != x:
                o.append(x)
        return o

    want = collapse([sig(e) for e in v["events"] if issubclass(getattr(evm, e[1]), fcls)])
    got = collapse([sig(e) for e in v["events2"]])
    if want != got:
        missing = [x for x in want if x not in got]
        extra = [x for x in got if x not in want]
        if missing:
            what = f"missing {missing[0][0]}"
        elif extra:
            what = f"extra {extra[0][0]}"
        else:
            what = "order"
        out.append(dict(kind="filter-mismatch",
                        msg=f"filter {h.cfg.second_filter}: filtered watch delivered {got}, projection of the unfiltered "
                            f"stream is {want}; history={h.name}",
                        fp=f"filter-mismatch filter={'+'.join(h.cfg.second_filter)}: {what}"))
    return out


def check_paths(h, res):
    """C19: every non-empty event path has the type of the watched path given to schedule() and, converted back
    with the filesystem encoding and normalised, is the watched path joined with the real relative name of an
    entry that exists or existed according to the history (or the root itself)."""
    out = []
    v = res.value
    if v is None or res.errors:
        return out
    want = "bytes" if h.cfg.root_type == "bytes" else "str"
    mp = (lambda p: p) if h.cfg.names == "prefix" else h.mapname    # prefix names are mapped back by the recorder
    m = Model(h.tree0)
    known = {""} | {mp(p) for p in m.tree}
    for op, _ in h.history:
        m.apply(op)
        known |= {mp(p) for p in m.tree}
    if h.cfg.second_type:
        # two watches of the same directory that differ only in the path type keep their own type
        for e in v.get("events2") or ():
            for which, val, ty in (("src_path", e[2], e[6].split("/")[0]), ("dest_path", e[3], e[6].split("/")[1])):
                if val is not None and ty != h.cfg.second_type:
                    out.append(dict(kind="path-type", msg=f"second watch (root given as {h.cfg.second_type}) got {e[1]}.{which} as "
                                                          f"{ty}; event={e}; history={h.name}",
                                    fp=f"path-type twin watch: {which} {ty} for {h.cfg.second_type} root"))
                    break
            if out:
                break
    # exact names: the created events of a single, drained operation name exactly the entries it created
    if h.cfg.recursive and len(h.history) == 1 and h.history[0][0][0] not in ("rename", "move_out", "rmtree_root"):
        m0 = Model(h.tree0)
        before = set(m0.tree)
        m0.apply(h.history[0][0])
        new = {mp(p) for p in set(m0.tree) - before}
        created = {e[2] for e in v["events"] if e[1].endswith("CreatedEvent")}
        if created != new:
            out.append(dict(kind="path-name", msg=f"created events name {sorted(created)}, the operation created "
                                                  f"{sorted(new)}; history={h.name}; events={v['events']}",
                            fp=f"path-name created events do not name the created entries ({h.history[0][0][0]}) names={h.cfg.names}"))
    for e in v["events"] + v["probe_events"]:
        if len(e) > 7 and not e[7]:
            out.append(dict(kind="path-name", msg=f"{e[1]} path is not the watched path (as given to schedule()) joined with a "
                                                  f"relative name; event={e}; history={h.name}",
                            fp=f"path-name not under the watched path as given ({e[1]}) form={h.cfg.root_form}"))
            break
        tys = e[6].split("/")
        for which, val, ty in (("src_path", e[2], tys[0]), ("dest_path", e[3], tys[1])):
            if val is None:
                continue
            if ty != want:
                out.append(dict(kind="path-type", msg=f"{e[1]}.{which} is {ty}, the watch path was given as "
                                                      f"{h.cfg.root_type}; event={e}; history={h.name}",
                                fp=f"path-type {which} {ty} for {h.cfg.root_type} root ({e[1]}{' synthetic' if e[5] else ''})"))
            elif val.startswith("!") or (val not in known and not val.rsplit("/", 1)[-1].startswith("probe")):
                out.append(dict(kind="path-name", msg=f"{e[1]}.{which} = {val!r} does not name the root joined with the "
                                                      f"real relative name of any entry of the history; event={e}; "
                                                      f"history={h.name}",
                                fp=f"path-name {which} ({e[1]}{' synthetic' if e[5] else ''}) names={h.cfg.names} form={h.cfg.root_form}"))
    return out


def single_op_deviation_search(ctx, checks, *, tier, bound=None):
    """C03: every single operation from small trees under all schedules with <= bound deviations (operator is not
    involved: reader/emitter/dispatcher interleavings at seam calls, split kernel buffer, early pairing-delay expiry)."""
    wd.load()
    envshim.install()
    q = tier == "quick"
    cfg = Config(early=False, split_reads=True, probes=False, outside_ops=False)
    H = type("DevHarness", (_DevHarness,), dict(checks=tuple(checks)))
    jobs = []
    for t in small_trees(1 if q else 3):
        for b in bursts(Model(t), 1, True, outside_ops=False):
            op = b[0][0]
            if q and op[0] not in ("rename", "move_out", "move_in_dir", "move_in_file", "makedirs", "rmtree"):
                continue
            deep = op[0] == "rename"
            jobs.append((H(t, b, cfg), bound or ((2 if deep else 1) if q else (3 if deep else 2))))
    ctx.explore_many(jobs, cap=400_000 if q else 8_000_000, selftest=False, workers=fs_workers(ctx))
    continue_from_suspicious(ctx, checks, take_suspicious(ctx), Config(early=False, split_reads=True, probes=True, outside_ops=False),
                             depth=2, cap=40_000 if q else 400_000, label="continuation(single-op)")


STRUCTURAL = ("mkdir", "makedirs", "rmdir", "rmtree", "rename", "move_out", "move_in_dir")


def vanish_search(ctx, checks, *, tier):
    """C07: entries vanish (or change kind) between a notification and the library's follow-up add_watch / walk.
    History = one directory-creating operation, then - resumed at ANY library seam call - a burst of up to 3
    operations that remove, rename or re-use names; all placements of the resumption (deviation bound 1)."""
    wd.load()
    envshim.install()
    q = tier == "quick"
    cfg = Config(early=True, split_reads=False, probes=True, outside_ops=False)
    H = type("DevHarness", (_DevHarness,), dict(checks=tuple(checks)))
    jobs = []
    seen = set()
    for t in ({}, {"d": "d"}, {"d": "d", "e": "d"}) if q else small_trees(2):
        m0 = Model(t)
        for first in m0.ops(outside_ops=False):
            if first[0] not in ("mkdir", "makedirs", "move_in_dir"):
                continue
            m1 = m0.copy()
            m1.apply(first)
            # a second creation inside the new directory may belong to the first burst (siblings for the walk)
            firsts = [[(first, "settle")]]
            for second in m1.ops(outside_ops=False):
                if second[0] in ("mkdir",) and inside(second[1], first[1] if first[0] != "makedirs" else parent(first[1])):
                    firsts.append([(first, "burst"), (second, "settle")])
            for pre in firsts:
                m2 = m0.copy()
                for op, _ in pre:
                    m2.apply(op)

                def rec(m, suffix, depth):
                    if suffix:
                        hist = pre + [(o, "burst") for o in suffix[:-1]] + [(suffix[-1], "drain")]
                        key = (tuple(sorted(t.items())), repr(hist))
                        if key not in seen:
                            seen.add(key)
                            jobs.append((H(t, hist, cfg), 1))
                    if depth == 0:
                        return
                    cands = [op for op in m.ops(outside_ops=False)
                             if op[0] in ("rmdir", "rmtree", "rename", "move_out", "mknod")
                             and not (op[0] == "mknod" and op[1] != "d") and not (op[0] == "rename" and m.tree.get(op[1]) != "d")]
                    # something new appears inside a directory that is just being discovered
                    cands += [("mkdir_x", d) for d, kk in m.tree.items() if kk == "d" and d + "/x" not in m.tree]
                    for op in cands:
                        if any(x.endswith("/x") for x in m.tree) and op[0] in ("rename", "rmtree", "move_out") \
                                and any(inside(x, op[1]) for x in m.tree if x.endswith("/x")):
                            continue   # keep the extra directory where the universe can still describe it
                        mm = m.copy()
                        mm.apply(op)
                        rec(mm, suffix + [op], depth - 1)

                rec(m2, [], 2 if q else 3)
    ctx.explore_many(jobs, cap=300_000 if q else 6_000_000, selftest=False, workers=fs_workers(ctx))
    # under unrestricted pacing an inconsistent watch map is common (names re-used faster than they are processed):
    # the seeds are continued with single operations like everywhere else, but with a small budget
    continue_from_suspicious(ctx, checks, take_suspicious(ctx)[:200], cfg, depth=1 if q else 2, cap=20_000 if q else 200_000,
                             respect_pacing=False, label="continuation(vanish)")


# =================================================================================================
# continuation from suspicious drained states reached under a deviating schedule
# =================================================================================================
def suspicious(book):
    """Does the library's watch map disagree with the kernel about a directory inside the tree?  (Not a verdict:
    such a state is only a reason to look further - operations are appended until a property-level oracle fails.)"""
    try:
        for rows, fwd in book:
            for lib, k in rows:
                if k in ("<gone>", "<no-kernel-watch>") or str(k).startswith("OUT:"):
                    continue
                if lib != k:
                    return True
            for p, (lib, k) in fwd:
                if p != lib and not str(k).startswith("OUT:") and k not in ("<gone>", "<no-kernel-watch>", "<unknown-wd>"):
                    return True
    except (TypeError, ValueError):
        return False
    return False


def _run_cont(job):
    tree0, hist, prefix, cfg_tag = job
    cfg = _JOB["cont_cfg"]
    h = HistoryHarness(tree0, hist, cfg)
    try:
        res = ex.run_one(h, bytes(prefix))
    except vsched.DivergenceError:
        return dict(vs=[], key=None, steps=0, name=h.name, diverged=True)
    vs = []
    for f in _JOB["checks"]:
        vs.extend(f(h, res))
    vs = [v for v in list(h.base_check(res)) + vs]
    key = (res.value["model"], res.value["book"]) if res.value is not None else None
    return dict(vs=vs, key=key, steps=res.steps, name=h.name, diverged=False)


def continue_from_suspicious(ctx, checks, seeds, cfg, *, depth, cap, respect_pacing=True, label="continuation"):
    """seeds: [(tree0, history, prefix)] - drained states reached under a deviating schedule whose watch map is
    inconsistent.  Single operations (each drained) are appended breadth-first; the recorded choice prefix is replayed,
    everything after it follows the default schedule."""
    import multiprocessing

    if not seeds:
        ctx.parts.append(dict(part=label, seeds=0, executions=0))
        return
    _JOB.update(checks=checks, cont_cfg=cfg)
    mp = multiprocessing.get_context("fork")
    executions = 0
    seen = set()
    frontier = [(t, [(tuple(op), p) for op, p in hist], list(prefix)) for t, hist, prefix in seeds]
    with mp.Pool(fs_workers(ctx), initializer=_init_pool, initargs=(mp.Value("i", 0),)) as pool:
        for level in range(depth):
            jobs = []
            for t, hist, prefix in frontier:
                m = Model(t)
                for op, _ in hist:
                    m.apply(op)
                base = hist[:-1] + [(hist[-1][0], "drain")]
                for b in bursts(m, 1, respect_pacing, outside_ops=cfg.outside_ops):
                    jobs.append((t, base + b, prefix, cfg.tag()))
            jobs = jobs[: max(0, cap - executions)]
            nxt = []
            for (t, hist, prefix, _), r in zip(jobs, pool.imap(_run_cont, jobs, chunksize=4)):
                executions += 1
                if r["diverged"]:
                    continue
                bad = False
                for v in r["vs"]:
                    bad = True
                    v = dict(v)
                    if not v.get("infra"):
                        v["fp"] = classify(v, t, hist, cfg)
                        if not respect_pacing:
                            # the seed state already has mislabelled watches: whatever fails afterwards follows from that
                            v["fp"] = (v["fp"].split(":")[0] + ": follow-up of an inconsistent watch map (names were re-used "
                                       "before their notifications were processed)")
                    v.update(prefix=list(prefix), harness=r["name"], tree0=t, history=[[list(op), p] for op, p in hist], cfg=cfg.tag())
                    ctx.add_violation(v)
                if not bad and r["key"] is not None and r["key"] not in seen:
                    seen.add(r["key"])
                    nxt.append((t, hist, prefix))
            frontier = nxt
            if not frontier or executions >= cap:
                break
    ctx.executions += executions
    ctx.transitions += executions
    ctx.parts.append(dict(part=label, seeds=len(seeds), depth=depth, executions=executions, distinct_states=len(seen)))
