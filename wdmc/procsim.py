"""Simulated child processes for the tricks (C18): a per-execution process table behind
`subprocess.Popen` and `kill_process` of `watchdog.tricks`.

The table of the execution in progress lives in `vsched.S.env["proctable"]`; it is created by the
harness body (`Table(s, log, ...)`) and writes its spawn / signal / reap records into the harness
log, so that the log is one totally ordered history of calls, returns and process events.

Child behaviour (harness configuration, per spawn index; the last entry repeats):
  lifetime   None = runs until signalled, d = exits by itself (code 0) once the virtual clock reaches
             spawn time + d.  Self-exit is evaluated lazily: `exited = killed or clock >= deadline`;
             no extra thread exists for it, `wait()` blocks with the deadline as its time-out.
  ignores    True = the stop signal (anything but 9) is ignored, only SIGKILL ends the child.
A signalled child that reacts dies at once (code -sig).  A child that has exited but has not been
reaped by poll()/wait() is a zombie: signalling it succeeds without effect (as killpg on a zombie's
group does); after it was reaped `kill_process` raises ProcessLookupError (as os.getpgid does).
Pids are never reused.  Every seam call is a scheduling point.  `max_children` bounds the number of spawns of
one execution: exceeding it ends the execution (step horizon) with a "runaway" record in the log.
"""

from __future__ import annotations

import subprocess as _real_subprocess

from . import vsched


class Child:
    __slots__ = ("pid", "index", "args", "spawn_t", "deadline", "ignores", "kill_t", "kill_sig", "reaped")

    def __init__(self, pid, index, args, spawn_t, lifetime, ignores):
        self.pid = pid
        self.index = index
        self.args = args
        self.spawn_t = spawn_t
        self.deadline = None if lifetime is None else spawn_t + lifetime
        self.ignores = ignores
        self.kill_t = None
        self.kill_sig = None
        self.reaped = False

    def exited(self, clock):
        return self.kill_sig is not None or (self.deadline is not None and clock >= self.deadline)

    def code(self):
        return -self.kill_sig if self.kill_sig is not None else 0

    def self_exited(self, clock):
        return self.kill_sig is None and self.deadline is not None and clock >= self.deadline


def _at(seq, i):
    return seq[min(i, len(seq) - 1)]


class Table:
    def __init__(self, s, log, lifetimes=(None,), ignores=(False,), role=None, max_children=None):
        self.s = s
        self.max_children = max_children    # more spawns than this end the execution (runaway guard)
        self.role = role                    # maps a scheduler thread to the name recorded as the spawner
        self.log = log                      # list shared with the harness
        self.lifetimes = tuple(lifetimes)
        self.ignores = tuple(ignores)
        self.children = []
        self.by_pid = {}
        self.next_pid = 100

    # ---- helpers for the harness -------------------------------------------------------------
    def alive(self):
        c = self.s.clock
        return [ch.pid for ch in self.children if not ch.exited(c)]

    # ---- the seams ---------------------------------------------------------------------------
    def spawn(self, args):
        s = self.s
        s.seam_point("seam:Popen")
        i = len(self.children)
        pid = self.next_pid
        self.next_pid += 1
        ch = Child(pid, i, args, s.clock, _at(self.lifetimes, i), _at(self.ignores, i))
        self.children.append(ch)
        self.by_pid[pid] = ch
        me = s.me()
        by = "?" if me is None else (self.role(me) if self.role else me.name)
        self.log.append(("spawn", pid, s.clock, ch.deadline, by))
        if self.max_children is not None and len(self.children) > self.max_children:
            # runaway (e.g. an endless restart cascade): end the execution at the next scheduling point;
            # it is reported as a horizon abort and the harness names it from the "runaway" record
            self.log.append(("runaway", len(self.children), s.clock))
            s.max_steps = 0
        return ch

    def signal(self, pid, sig):
        s = self.s
        s.seam_point("seam:kill")
        ch = self.by_pid.get(pid)
        if ch is None or ch.reaped:
            self.log.append(("signal", pid, sig, s.clock, "ESRCH"))
            raise ProcessLookupError(3, "No such process")
        if ch.exited(s.clock):
            self.log.append(("signal", pid, sig, s.clock, "zombie"))
            return
        if sig == 0:
            return
        if sig == 9 or not ch.ignores:
            ch.kill_sig = sig
            ch.kill_t = s.clock
            self.log.append(("signal", pid, sig, s.clock, "killed"))
        else:
            self.log.append(("signal", pid, sig, s.clock, "ignored"))

    def reap(self, ch, how):
        if not ch.reaped:
            ch.reaped = True
            self.log.append(("reap", ch.pid, self.s.clock, how, ch.code()))


class SimPopen:
    def __init__(self, table, child):
        self._table = table
        self._child = child
        self.pid = child.pid
        self.args = child.args
        self.returncode = None

    def poll(self):
        t = self._table
        t.s.seam_point("seam:poll")
        ch = self._child
        if self.returncode is None and ch.exited(t.s.clock):
            t.reap(ch, "poll")
            self.returncode = ch.code()
        return self.returncode

    def wait(self, timeout=None):
        t = self._table
        s = t.s
        ch = self._child
        if self.returncode is not None:
            s.seam_point("seam:wait")
            return self.returncode
        to = timeout
        if ch.deadline is not None:
            rest = max(0.0, ch.deadline - s.clock)
            to = rest if to is None else min(to, rest)
        s.block(lambda: ch.exited(s.clock), to, desc=("seam:wait", ch.pid))
        if ch.exited(s.clock):
            t.reap(ch, "wait")
            self.returncode = ch.code()
            return self.returncode
        raise _real_subprocess.TimeoutExpired(self.args, timeout)

    def send_signal(self, sig):
        if self.returncode is None:
            try:
                self._table.signal(self.pid, sig)
            except ProcessLookupError:
                pass

    def terminate(self):
        self.send_signal(15)

    def kill(self):
        self.send_signal(9)

    def __enter__(self):
        return self

    def __exit__(self, *a):
        self.wait()


def _table():
    s = vsched.S
    if s is None or not s.active or "proctable" not in s.env:
        raise RuntimeError("simulated subprocess used outside an execution with a process table")
    return s.env["proctable"]


def Popen(args, *a, **kw):  # noqa: N802 - stands in for subprocess.Popen
    t = _table()
    return SimPopen(t, t.spawn(args))


def kill_process(pid, stop_signal):
    _table().signal(pid, stop_signal)


subprocess_proxy = vsched._make_module("subprocess", dict(Popen=Popen), _real_subprocess)


def install(tricks_module):
    """Replace the seams of watchdog.tricks (module globals) by the simulator."""
    if not hasattr(tricks_module, "kill_process") or not hasattr(tricks_module, "subprocess"):
        raise RuntimeError("watchdog.tricks no longer has the globals `subprocess` / `kill_process` (seam lost)")
    tricks_module.subprocess = subprocess_proxy
    tricks_module.kill_process = kill_process
    return "watchdog.tricks.subprocess -> wdmc.procsim (Popen/poll/wait), watchdog.tricks.kill_process -> wdmc.procsim"
