#!/venv/bin/python
"""Verify a seeded candidate produced by a sub-agent and store it under /verif/seeded/<id>/.

usage: tools/intake.py Cnn k [--skip-tests]      (reads /tmp/seed/out/Cnn/patch<k>.diff, demo<k>.py, notes.md;
                                                   verifies in the agent's scratch worktree /tmp/seed/Cnn)
Checks: patch applies to a clean worktree; the repository's own test-suite passes with it; the demo exits 1 with
the change and 0 without.  Nothing is ever applied to /repo.
"""
import json, os, shutil, subprocess, sys

def sh(cmd, cwd=None, env=None, timeout=1800):
    r = subprocess.run(cmd, shell=True, cwd=cwd, env=env, capture_output=True, text=True, timeout=timeout)
    return r.returncode, (r.stdout + r.stderr)

def main():
    pid, k = sys.argv[1], sys.argv[2]
    skip = "--skip-tests" in sys.argv
    wt, out = f"/tmp/seed/{pid}", f"/tmp/seed/out/{pid}"
    patch, demo = f"{out}/patch{k}.diff", f"{out}/demo{k}.py"
    env = dict(os.environ, PYTHONPATH=f"{wt}/src")
    sh("git checkout -- . && git clean -fdq", cwd=wt)
    rc, o = sh(f"git apply --check {patch} && git apply {patch}", cwd=wt)
    if rc:
        print("patch does not apply:", o[-500:]); return 1
    files = sh("git diff --name-only", cwd=wt)[1].split()
    if not all(f.startswith("src/watchdog") for f in files):
        print("patch touches files outside src/watchdog:", files); sh("git checkout -- .", cwd=wt); return 1
    tests = "skipped"
    if not skip:
        rc, o = sh("/venv/bin/python -m pytest -q -rf -p no:cacheprovider --timeout=900 --continue-on-collection-errors tests 2>&1 | tail -40", cwd=wt)
        tests = o.strip().splitlines()[-1] if o.strip() else "?"
        failed = sorted({l.split()[1] for l in o.splitlines() if l.startswith("FAILED ")})
        if failed:
            # the machine is loaded: sleep-based tests flake; a change is rejected only if a test fails repeatedly
            still = []
            for t in failed:
                ok = False
                for _ in range(3):
                    rc2, o2 = sh(f"/venv/bin/python -m pytest -q -p no:cacheprovider --timeout=900 '{t}' 2>&1 | tail -3", cwd=wt)
                    if " passed" in o2 and " failed" not in o2:
                        ok = True
                        break
                if not ok:
                    still.append(t)
            if still:
                print("test-suite fails with the change:", still); sh("git checkout -- .", cwd=wt); return 1
            tests += f" (flaky under load, passed on rerun: {failed})"
        elif " failed" in o or (" error" in o.lower() and "passed" not in o):
            print("test-suite fails with the change:", o[-600:]); sh("git checkout -- .", cwd=wt); return 1
    rcs = [sh(f"/venv/bin/python {demo}", cwd=out, env=env, timeout=600)[0] for _ in range(2)]
    sh("git checkout -- .", cwd=wt)
    rcc = [sh(f"/venv/bin/python {demo}", cwd=out, env=env, timeout=600)[0] for _ in range(2)]
    print(f"{pid}#{k}: tests: {tests}; demo with change exit={rcs}, without exit={rcc}")
    if rcs != [1, 1] or rcc != [0, 0]:
        print("demo does not discriminate"); return 1
    sid = f"{pid}-s{k}"
    d = f"/verif/seeded/{sid}"
    os.makedirs(d, exist_ok=True)
    shutil.copy(patch, f"{d}/patch.diff")
    shutil.copy(demo, f"{d}/demo.py")
    notes = open(f"{out}/notes.md").read() if os.path.exists(f"{out}/notes.md") else ""
    open(f"{d}/notes.md", "w").write(notes)
    meta = dict(id=sid, property=pid, files=files, needs="see notes.md (section for change %s)" % k,
                verified=dict(tests_with_change=tests, demo_exit_with_change=rcs, demo_exit_without=rcc,
                              commands=["git apply patch.diff (scratch worktree)", "pytest tests (baseline command)",
                                        "PYTHONPATH=<worktree>/src python demo.py"]),
                run_checks=[pid], author="independent sub-agent (saw only the property text)")
    json.dump(meta, open(f"{d}/meta.json", "w"), indent=1)
    print("stored", d)
    return 0

if __name__ == "__main__":
    sys.exit(main())
