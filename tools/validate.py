#!/opt/veriftools/pyvenv/bin/python
"""Validate MANIFEST.json and every evidence file against the schemas in /root/.vp."""
import json, sys, glob, jsonschema
ok = True
m = json.load(open('/verif/MANIFEST.json'))
try:
    jsonschema.validate(m, json.load(open('/root/.vp/MANIFEST.schema.json')))
except Exception as e:
    ok = False; print("MANIFEST invalid:", str(e)[:300])
es = json.load(open('/root/.vp/EVIDENCE.schema.json'))
for c in m['checks']:
    f = c['evidence_file']
    try:
        ev = json.load(open(f))
        jsonschema.validate(ev, es)
        assert ev['property_id'] == c['property_id'] and ev['level'] == c['level_claimed']['category'], "level/category mismatch"
        print(f"{c['property_id']}: ok level={ev['level']} tier={ev['tier']} wall={ev['wall_s']} exhaustive={ev['coverage'].get('exhaustive')}")
    except Exception as e:
        ok = False; print(f"{c['property_id']}: INVALID {str(e)[:300]}")
claimed = {c['property_id'] for c in m['checks']}
na = {n['property_id'] for n in m.get('not_applicable', [])}
allp = {json.loads(l)['id'] for l in open('/verif/properties.jsonl')}
print("claimed", len(claimed), "not_applicable", sorted(na), "unaccounted", sorted(allp - claimed - na))
sys.exit(0 if ok else 1)
