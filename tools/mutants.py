#!/venv/bin/python
"""Own mutation list (the M items of DESIGN.md): apply one to a scratch copy of /repo/src and run checks.

usage: tools/mutants.py [--tier quick] [--only ID[,ID]] [--checks C04,C05]
Each mutant is (id, file, old, new, [checks expected to report it]).  Nothing in /repo is touched.
"""
import argparse, os, shutil, subprocess, sys

M = []
def m(id, file, old, new, checks): M.append((id, file, old, new, checks))

DQ = "src/watchdog/utils/delayed_queue.py"
m("dq-no-identity-recheck", DQ, "if len(self._queue) > 0 and self._queue[0][0] is head:", "if len(self._queue) > 0:", ["C17", "C08"])
m("dq-close-no-notify", DQ, """        self._not_empty.acquire()
        self._not_empty.notify()
        self._not_empty.release()

    def get""", """
    def get""", ["C17", "C08", "C06"])
m("dq-remove-unlocked", DQ, """        with self._lock:
            for i, (elem, *_) in enumerate(self._queue):
                if predicate(elem):
                    del self._queue[i]
                    return elem
        return None""", """        for i, (elem, *_) in enumerate(self._queue):
            if predicate(elem):
                del self._queue[i]
                return elem
        return None""", ["C17"])
m("dq-single-sleep-no-loop", DQ, """                time_left = insert_time + self.delay_sec - time.time()
                while time_left > 0:
                    time.sleep(time_left)
                    time_left = insert_time + self.delay_sec - time.time()""", """                time_left = insert_time + self.delay_sec - time.time() - 0.25
                if time_left > 0:
                    time.sleep(time_left)""", ["C17", "C08"])
BR = "src/watchdog/utils/bricks.py"
m("srq-never-clear-last", BR, "        if item is self._last_item:\n", "        if item is self._last_item and False:\n", ["C16"])
API = "src/watchdog/observers/api.py"
m("api-no-membership-recheck", API, "                if handler in self._handlers[watch]:\n                    handler.dispatch(event)", "                handler.dispatch(event)", ["C05"])
m("api-remove-emitter-no-join", API, """        emitter.stop()
        with contextlib.suppress(RuntimeError):
            emitter.join()

    def _clear_emitters""", """        emitter.stop()

    def _clear_emitters""", ["C05"])
m("api-stop-no-sentinel", API, """        with contextlib.suppress(queue.Full):
            self.event_queue.put_nowait(EventDispatcher.stop_event)""", "        pass", ["C06"])
m("api-dispatch-unlocked", API, """        with self._lock:
            # To allow unschedule/stop and safe removal of event handlers
            # within event handlers itself, check if the handler is still
            # registered after every dispatch.
            for handler in self._handlers[watch].copy():
                if handler in self._handlers[watch]:
                    handler.dispatch(event)""", """        if True:
            for handler in self._handlers[watch].copy():
                if handler in self._handlers[watch]:
                    handler.dispatch(event)""", ["C05"])
m("api-nonreentrant-lock", API, "self._lock = threading.RLock()", "self._lock = threading.Lock()", ["C06", "C05"])
m("api-iterate-live-set", API, "for handler in self._handlers[watch].copy():", "for handler in self._handlers[watch]:", ["C04", "C05"])
m("api-unschedule-handlers-late", API, """            emitter = self._emitter_for_watch[watch]
            del self._handlers[watch]
            self._remove_emitter(emitter)
            self._watches.remove(watch)""", """            emitter = self._emitter_for_watch[watch]
            self._remove_emitter(emitter)
            self._watches.remove(watch)
        del self._handlers[watch]""", ["C05"])
m("api-dispatch-watch-by-path", API, """            for handler in self._handlers[watch].copy():
                if handler in self._handlers[watch]:
                    handler.dispatch(event)""", """            for w in list(self._handlers):
                if w.path != watch.path:
                    continue
                for handler in self._handlers[w].copy():
                    if handler in self._handlers[w]:
                        handler.dispatch(event)""", ["C04"])
IB = "src/watchdog/observers/inotify_buffer.py"
m("ib-no-delay-for-from", IB, "delay = not isinstance(inotify_event, tuple) and inotify_event.is_moved_from", "delay = False", ["C08"])
m("ib-pair-ignores-cookie", IB, "return not isinstance(event, tuple) and event.is_moved_from and event.cookie == inotify_event.cookie", "return not isinstance(event, tuple) and event.is_moved_from", ["C08"])
m("ib-ignored-not-skipped", IB, """                        deleted_self = True
                    continue
""", """                        deleted_self = True
""", ["C08"])
INO = "src/watchdog/observers/inotify.py"
INC = "src/watchdog/observers/inotify_c.py"
m("ino-submoved-nonrecursive", INO, "                if move_from.is_directory and self.watch.is_recursive:", "                if move_from.is_directory:", ["C03"])
m("ino-moved-toplevel-synthetic", INO, "                self.queue_event(cls(src_path, dest_path))\n", "                self.queue_event(cls(src_path, dest_path, is_synthetic=True))\n", ["C03"])
m("ino-moved-to-file-silent", INO, """                    cls = DirCreatedEvent if event.is_directory else FileCreatedEvent
                    self.queue_event(cls(src_path))
                self.queue_event(DirModifiedEvent(os.path.dirname(src_path)))
                if event.is_directory and self.watch.is_recursive:""", """                    cls = DirCreatedEvent if event.is_directory else FileCreatedEvent
                    if event.is_directory:
                        self.queue_event(cls(src_path))
                self.queue_event(DirModifiedEvent(os.path.dirname(src_path)))
                if event.is_directory and self.watch.is_recursive:""", ["C01", "C03"])
m("ino-swap-src-dest-dirs", INO, "                self.queue_event(cls(src_path, dest_path))\n", "                self.queue_event(cls(dest_path, src_path) if move_from.is_directory else cls(src_path, dest_path))\n", ["C01", "C03"])
m("inc-no-rekey-descendants", INC, "                        if self.is_recursive:\n                            for _path in self._wd_for_path.copy():", "                        if False:\n                            for _path in self._wd_for_path.copy():", ["C02"])
m("inc-simulate-skip-subdir-watch", INC, "                        wd_dir = self._add_watch(full_path, self._event_mask)", "                        wd_dir = self._wd_for_path[root]", ["C02"])
m("inc-subwatches-when-nonrecursive", INC, "                if self.is_recursive and inotify_event.is_directory and inotify_event.is_create:", "                if inotify_event.is_directory and inotify_event.is_create:", ["C02", "C03"])
m("inc-no-suppress-simulate", INC, """                    with contextlib.suppress(OSError):
                        full_path = os.path.join(root, dirname)""", """                    if True:
                        full_path = os.path.join(root, dirname)""", ["C07"])
m("inc-isdir-from-mask-only", INC, "        return self.is_delete_self or self.is_move_self or self._mask & InotifyConstants.IN_ISDIR > 0", "        return self._mask & InotifyConstants.IN_ISDIR > 0", ["C07"])
m("ino-root-delete-no-stop", INO, """                self.queue_event(cls(src_path))
                self.stop()""", """                self.queue_event(cls(src_path))""", ["C07"])
m("ino-mask-deleted-without-moved-from", INO, "            event_mask |= InotifyConstants.IN_MOVE | InotifyConstants.IN_DELETE\n", "            event_mask |= InotifyConstants.IN_DELETE\n", ["C11"])
m("ino-filter-before-subevents", INO, """                if move_from.is_directory and self.watch.is_recursive:
                    for sub_moved_event in generate_sub_moved_events(src_path, dest_path):""", """                if move_from.is_directory and self.watch.is_recursive and (
                    self._event_filter is None or DirMovedEvent in self._event_filter
                ):
                    for sub_moved_event in generate_sub_moved_events(src_path, dest_path):""", ["C11"])
m("ino-decode-always-in-move", INO, """                src_path = self._decode_path(move_from.src_path)
                dest_path = self._decode_path(move_to.src_path)""", """                src_path = os.fsdecode(move_from.src_path)
                dest_path = os.fsdecode(move_to.src_path)""", ["C19"])
m("ino-decode-replace-errors", INO, "        return path if isinstance(self.watch.path, bytes) else os.fsdecode(path)", "        return path if isinstance(self.watch.path, bytes) else path.decode('utf-8', 'replace')", ["C19"])
m("poll-created-decoded", "src/watchdog/observers/polling.py", "                self.queue_event(FileCreatedEvent(src_path))", "                self.queue_event(FileCreatedEvent(os.fsdecode(src_path)))", ["C19"])
m("inc-close-always-closes-fds", INC, """                if self._is_reading:
                    # inotify_rm_watch() should write data to _inotify_fd and wake
                    # the thread, but writing to the kill channel will gaurentee this
                    os.write(self._kill_w, b"!")
                else:
                    self._close_resources()""", """                if self._is_reading:
                    os.write(self._kill_w, b"!")
                self._close_resources()""", ["C12"])
m("inc-is-reading-reset-unlocked", INC, """                with self._lock:
                    self._is_reading = False

                    if self._closed:""", """                self._is_reading = False
                with self._lock:
                    if self._closed:""", ["C12"])
m("inc-init-leak-again", INC, """        except OSError:
            # The instance is never handed out: release what was opened above.
            self._close_resources()
            raise""", """        except OSError:
            raise""", ["C12"])
m("ib-close-no-join", IB, """        self.stop()
        self.join()""", """        self.stop()""", ["C12"])


def main():
    ap = argparse.ArgumentParser()
    ap.add_argument("--tier", default="quick")
    ap.add_argument("--only")
    ap.add_argument("--checks")
    ap.add_argument("--scratch", default="/tmp/wdmc-mut")
    a = ap.parse_args()
    only = set(a.only.split(",")) if a.only else None
    res = []
    for id, file, old, new, checks in M:
        if only and id not in only:
            continue
        if a.checks:
            checks = [c for c in checks if c in a.checks.split(",")] if not only else a.checks.split(",")
        if not checks:
            continue
        shutil.rmtree(a.scratch, ignore_errors=True)
        shutil.copytree("/repo/src", os.path.join(a.scratch, "src"))
        p = os.path.join(a.scratch, file)
        s = open(p).read()
        if s.count(old) != 1:
            print(f"{id}: pattern found {s.count(old)} times - skipped")
            res.append((id, "STALE", ""))
            continue
        open(p, "w").write(s.replace(old, new))
        for c in checks:
            env = dict(os.environ, WDMC_REPO=a.scratch)
            r = subprocess.run(["/venv/bin/python", "-B", "/verif/check", c, "--tier", a.tier], env=env,
                               capture_output=True, text=True)
            fps = [l.strip()[13:] for l in r.stdout.splitlines() if l.strip().startswith("fingerprint:")]
            verdict = "DETECTED" if r.returncode == 1 else ("MISSED" if r.returncode == 0 else f"ERROR({r.returncode})")
            print(f"{id:32s} {c}: {verdict} {fps[:3]}", flush=True)
            if r.returncode not in (0, 1):
                print(r.stderr[-1500:])
            res.append((id, c, verdict))
        shutil.rmtree(a.scratch, ignore_errors=True)
    subprocess.run(["git", "-C", "/verif", "checkout", "--", "evidence"], capture_output=True)
    bad = [r for r in res if r[2] != "DETECTED"]
    print(f"{len(res) - len(bad)}/{len(res)} detected")
    return 1 if bad else 0


if __name__ == "__main__":
    sys.exit(main())
