#!/venv/bin/python
"""Own mutation list (the M items of DESIGN.md): apply one to a scratch copy of /repo/src and run checks.

usage: tools/mutants.py [--tier quick] [--only ID[,ID]] [--checks C04,C05]
Each mutant is (id, file, old, new, [checks expected to report it]).  Nothing in /repo is touched.
"""
import argparse, os, shutil, subprocess, sys

M = []
def m(id, file, old, new, checks): M.append((id, file, old, new, checks))

DQ = "src/watchdog/utils/delayed_queue.py"
m("dq-no-identity-recheck", DQ, "if len(self._queue) > 0 and self._queue[0][0] is head:", "if len(self._queue) > 0:", ["C17", "C08"])
m("dq-close-no-notify", DQ, """        self._not_empty.acquire()
        self._not_empty.notify()
        self._not_empty.release()

    def get""", """
    def get""", ["C17", "C08", "C06"])
m("dq-remove-unlocked", DQ, """        with self._lock:
            for i, (elem, *_) in enumerate(self._queue):
                if predicate(elem):
                    del self._queue[i]
                    return elem
        return None""", """        for i, (elem, *_) in enumerate(self._queue):
            if predicate(elem):
                del self._queue[i]
                return elem
        return None""", ["C17"])
m("dq-single-sleep-no-loop", DQ, """                time_left = insert_time + self.delay_sec - time.time()
                while time_left > 0:
                    time.sleep(time_left)
                    time_left = insert_time + self.delay_sec - time.time()""", """                time_left = insert_time + self.delay_sec - time.time() - 0.25
                if time_left > 0:
                    time.sleep(time_left)""", ["C17", "C08"])
BR = "src/watchdog/utils/bricks.py"
m("srq-never-clear-last", BR, "        if item is self._last_item:\n", "        if item is self._last_item and False:\n", ["C16"])
API = "src/watchdog/observers/api.py"
m("api-no-membership-recheck", API, "                if handler in self._handlers[watch]:\n                    handler.dispatch(event)", "                handler.dispatch(event)", ["C05"])
m("api-remove-emitter-no-join", API, """        emitter.stop()
        with contextlib.suppress(RuntimeError):
            emitter.join()

    def _clear_emitters""", """        emitter.stop()

    def _clear_emitters""", ["C05"])
m("api-stop-no-sentinel", API, """        with contextlib.suppress(queue.Full):
            self.event_queue.put_nowait(EventDispatcher.stop_event)""", "        pass", ["C06"])
m("api-dispatch-unlocked", API, """        with self._lock:
            # To allow unschedule/stop and safe removal of event handlers
            # within event handlers itself, check if the handler is still
            # registered after every dispatch.
            for handler in self._handlers[watch].copy():
                if handler in self._handlers[watch]:
                    handler.dispatch(event)""", """        if True:
            for handler in self._handlers[watch].copy():
                if handler in self._handlers[watch]:
                    handler.dispatch(event)""", ["C05"])
m("api-nonreentrant-lock", API, "self._lock = threading.RLock()", "self._lock = threading.Lock()", ["C06", "C05"])
m("api-iterate-live-set", API, "for handler in self._handlers[watch].copy():", "for handler in self._handlers[watch]:", ["C04", "C05"])
m("api-unschedule-handlers-late", API, """            emitter = self._emitter_for_watch[watch]
            del self._handlers[watch]
            self._remove_emitter(emitter)
            self._watches.remove(watch)""", """            emitter = self._emitter_for_watch[watch]
            self._remove_emitter(emitter)
            self._watches.remove(watch)
        del self._handlers[watch]""", ["C05"])
m("api-dispatch-watch-by-path", API, """            for handler in self._handlers[watch].copy():
                if handler in self._handlers[watch]:
                    handler.dispatch(event)""", """            for w in list(self._handlers):
                if w.path != watch.path:
                    continue
                for handler in self._handlers[w].copy():
                    if handler in self._handlers[w]:
                        handler.dispatch(event)""", ["C04"])
IB = "src/watchdog/observers/inotify_buffer.py"
m("ib-no-delay-for-from", IB, "delay = not isinstance(inotify_event, tuple) and inotify_event.is_moved_from", "delay = False", ["C08"])
m("ib-pair-ignores-cookie", IB, "return not isinstance(event, tuple) and event.is_moved_from and event.cookie == inotify_event.cookie", "return not isinstance(event, tuple) and event.is_moved_from", ["C08"])
m("ib-ignored-not-skipped", IB, """                        deleted_self = True
                    continue
""", """                        deleted_self = True
""", ["C08"])


def main():
    ap = argparse.ArgumentParser()
    ap.add_argument("--tier", default="quick")
    ap.add_argument("--only")
    ap.add_argument("--checks")
    ap.add_argument("--scratch", default="/tmp/wdmc-mut")
    a = ap.parse_args()
    only = set(a.only.split(",")) if a.only else None
    res = []
    for id, file, old, new, checks in M:
        if only and id not in only:
            continue
        if a.checks:
            checks = [c for c in checks if c in a.checks.split(",")] if not only else a.checks.split(",")
        if not checks:
            continue
        shutil.rmtree(a.scratch, ignore_errors=True)
        shutil.copytree("/repo/src", os.path.join(a.scratch, "src"))
        p = os.path.join(a.scratch, file)
        s = open(p).read()
        if s.count(old) != 1:
            print(f"{id}: pattern found {s.count(old)} times - skipped")
            res.append((id, "STALE", ""))
            continue
        open(p, "w").write(s.replace(old, new))
        for c in checks:
            env = dict(os.environ, WDMC_REPO=a.scratch)
            r = subprocess.run(["/venv/bin/python", "-B", "/verif/check", c, "--tier", a.tier], env=env,
                               capture_output=True, text=True)
            fps = [l.strip()[13:] for l in r.stdout.splitlines() if l.strip().startswith("fingerprint:")]
            verdict = "DETECTED" if r.returncode == 1 else ("MISSED" if r.returncode == 0 else f"ERROR({r.returncode})")
            print(f"{id:32s} {c}: {verdict} {fps[:3]}", flush=True)
            if r.returncode not in (0, 1):
                print(r.stderr[-1500:])
            res.append((id, c, verdict))
        shutil.rmtree(a.scratch, ignore_errors=True)
    subprocess.run(["git", "-C", "/verif", "checkout", "--", "evidence"], capture_output=True)
    bad = [r for r in res if r[2] != "DETECTED"]
    print(f"{len(res) - len(bad)}/{len(res)} detected")
    return 1 if bad else 0


if __name__ == "__main__":
    sys.exit(main())
