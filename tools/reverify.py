#!/venv/bin/python
"""Re-verify every seeded change against the CURRENT /repo working tree (fix: commits may have neutralised one):
the demo must still exit 1 with the change applied to a scratch copy and 0 on the unchanged copy."""
import json, os, shutil, subprocess, sys
root = "/verif/seeded"
bad = []
for sid in sorted(os.listdir(root)):
    d = os.path.join(root, sid)
    if not os.path.isdir(d) or not os.path.exists(os.path.join(d, "patch.diff")):
        continue
    res = {}
    for mode in ("with", "without"):
        sc = "/tmp/wdmc-reverify"
        shutil.rmtree(sc, ignore_errors=True)
        os.makedirs(sc)
        shutil.copytree("/repo/src", sc + "/src")
        if mode == "with":
            r = subprocess.run(["patch", "-p1", "-s", "-d", sc, "-i", os.path.join(d, "patch.diff")], capture_output=True, text=True)
            if r.returncode:
                res[mode] = "patch-fails"
                continue
        env = dict(os.environ, PYTHONPATH=sc + "/src")
        # demos may hard-code the agent's worktree path: point that path at the scratch copy
        src = open(os.path.join(d, "demo.py")).read()
        import re
        src = re.sub(r"/tmp/seed/C\d\d", sc, src)
        open(sc + "/demo.py", "w").write(src)
        try:
            r = subprocess.run(["/venv/bin/python", sc + "/demo.py"], cwd=sc, env=env, capture_output=True, text=True, timeout=900)
            res[mode] = r.returncode
        except subprocess.TimeoutExpired:
            res[mode] = "timeout"
    ok = res.get("with") == 1 and res.get("without") == 0
    print(f"{sid}: with={res.get('with')} without={res.get('without')} {'ok' if ok else 'STALE'}", flush=True)
    if not ok:
        bad.append(sid)
shutil.rmtree("/tmp/wdmc-reverify", ignore_errors=True)
print("stale:", bad)
