#!/venv/bin/python
"""Run checks against the seeded changes kept under /verif/seeded/<id>/ (patch.diff + meta.json).

usage: tools/seeded.py [--tier quick] [--only ID,...] [--checks C04,C05]   (default: the checks named in meta.json)
The patch is applied to a scratch copy of /repo's working tree (never to /repo itself) and the checks are pointed at
it with WDMC_REPO; the copy is removed afterwards.
"""
import argparse, json, os, shutil, subprocess, sys

def main():
    ap = argparse.ArgumentParser()
    ap.add_argument("--tier", default="quick")
    ap.add_argument("--only")
    ap.add_argument("--checks")
    ap.add_argument("--scratch", default="/tmp/wdmc-seeded")
    a = ap.parse_args()
    root = "/verif/seeded"
    ids = sorted(os.listdir(root))
    if a.only:
        ids = [i for i in ids if i in a.only.split(",")]
    res = []
    for sid in ids:
        d = os.path.join(root, sid)
        meta = json.load(open(os.path.join(d, "meta.json")))
        checks = a.checks.split(",") if a.checks else meta.get("run_checks", [meta["property"]])
        shutil.rmtree(a.scratch, ignore_errors=True)
        os.makedirs(a.scratch)
        shutil.copytree("/repo/src", os.path.join(a.scratch, "src"))
        r = subprocess.run(["patch", "-p1", "-s", "-d", a.scratch, "-i", os.path.join(d, "patch.diff")], capture_output=True, text=True)
        if r.returncode != 0:
            print(f"{sid}: patch does not apply: {r.stdout[-300:]} {r.stderr[-300:]}")
            res.append((sid, "-", "STALE"))
            continue
        for c in checks:
            env = dict(os.environ, WDMC_REPO=a.scratch)
            r = subprocess.run(["/venv/bin/python", "-B", "/verif/check", c, "--tier", a.tier], env=env, capture_output=True, text=True)
            fps = [l.strip()[13:] for l in r.stdout.splitlines() if l.strip().startswith("fingerprint:")]
            verdict = "DETECTED" if r.returncode == 1 else ("MISSED" if r.returncode == 0 else f"ERROR({r.returncode})")
            print(f"{sid:28s} {c}: {verdict} {fps[:3]}", flush=True)
            if r.returncode not in (0, 1):
                print(r.stderr[-1200:])
            res.append((sid, c, verdict))
        shutil.rmtree(a.scratch, ignore_errors=True)
    subprocess.run(["git", "-C", "/verif", "checkout", "--", "evidence"], capture_output=True)
    by = {}
    for sid, c, v in res:
        by.setdefault(sid, []).append(v)
    caught = sum(1 for v in by.values() if "DETECTED" in v)
    print(f"{caught}/{len(by)} seeded changes detected by at least one of their checks")

if __name__ == "__main__":
    sys.exit(main())
