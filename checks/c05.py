"""C05 - after unschedule/remove/stop has returned, the removed handler is never called again."""

from __future__ import annotations

from wdmc import obsfam, vsched, wd

LEVEL = "model_checking"
RULE = ("client programs with a removing call (unschedule, remove_handler_for_watch, unschedule_all, stop) issued by "
        "an application thread or re-entrantly from a callback, over the real BaseObserver with scripted emitters; "
        "all schedules with <= bound deviations (delay bounding; line-level points in api.py/bricks.py/utils, "
        "instruction-level in dispatch_events); the scheduler places the removal at every point of the event stream; "
        "distinct = distinct (callback sequence, call results) outcomes")
ASSUMPTIONS = [
    "logical clock = position in the totally ordered log of the deterministic scheduler",
    "a callback is illegal only if it starts after the removing call has returned and no re-registration began since",
]


class H(obsfam.ObsHarness):
    def check(self, res):
        return self.base_check(res) + obsfam.check_dispatch(self, res, c04=False, c05=True)


def programs(tier):
    P = []
    S = lambda h, w: ("schedule", h, w)
    b1 = dict(init=[S("h0", "w0"), S("h1", "w0")], scripts={"w0": ["x", "y", "z"]})
    b2 = dict(init=[S("h0", "w0"), S("h1", "w1")], scripts={"w0": ["x", "y"], "w1": ["x", "y"]})
    t1 = dict(init=[S("h0", "w0")], scripts={"w0": ["x"]})
    P.append(("tiny-remove", dict(t1, threads=[[("remove", "h0", "w0")]])))
    P.append(("tiny-unschedule", dict(t1, threads=[[("unschedule", "w0")]])))
    P.append(("tiny-unschedule_all", dict(t1, threads=[[("unschedule_all",)]])))
    P.append(("tiny-stop", dict(t1, threads=[[("stop",)]])))
    P.append(("remove-ext", dict(b1, threads=[[("remove", "h1", "w0")]])))
    P.append(("unschedule-ext", dict(b2, threads=[[("unschedule", "w1")]])))
    P.append(("unschedule_all-ext", dict(b2, threads=[[("unschedule_all",)]])))
    P.append(("stop-ext", dict(b2, threads=[[("stop",)]])))
    P.append(("stop-twice", dict(b2, threads=[[("stop",)], [("stop",)]])))
    P.append(("remove-readd", dict(b1, threads=[[("remove", "h1", "w0"), ("add", "h1", "w0")]])))
    P.append(("unschedule-resched", dict(b2, threads=[[("unschedule", "w1"), S("h1", "w1")]])))
    P.append(("remove-vs-unschedule", dict(b1, threads=[[("remove", "h1", "w0")], [("unschedule", "w0")]])))
    for k in (0, 1):
        P.append((f"reent-remove-self-{k}", dict(b1, reentrant={("h1", k): ("remove", "h1", "w0")})))
        P.append((f"reent-remove-other-{k}", dict(b1, reentrant={("h0", k): ("remove", "h1", "w0")})))
        P.append((f"reent-unschedule-own-{k}", dict(b2, reentrant={("h0", k): ("unschedule", "w0")})))
        P.append((f"reent-unschedule-other-{k}", dict(b2, reentrant={("h0", k): ("unschedule", "w1")})))
        P.append((f"reent-unschedule_all-{k}", dict(b2, reentrant={("h0", k): ("unschedule_all",)})))
        P.append((f"reent-stop-{k}", dict(b2, reentrant={("h0", k): ("stop",)})))
    for caller in ("h0", "h1"):
        for op in (("unschedule", "w0"), ("unschedule_all",), ("stop",)):
            P.append((f"shared-reent-{op[0]}-by-{caller}", dict(b1, reentrant={(caller, 0): op})))
    P.append(("unsched||sched-same-watch", dict(init=[S("h0", "w0")], scripts={"w0": ["x", "y"]},
                                                threads=[[("unschedule", "w0")], [S("h1", "w0")]])))
    P.append(("shared-stop-twice", dict(b1, threads=[[("stop",)], [("stop",)]])))
    P.append(("shared-reent-stop-ext-stop", dict(b1, threads=[[("stop",)]], reentrant={("h0", 0): ("stop",)})))
    P.append(("shared-reent-stop-ext-stop-by-h1", dict(b1, threads=[[("stop",)]], reentrant={("h1", 0): ("stop",)})))
    slow = dict(init=[S("h0", "w0")], scripts={"w0": ["x", "slow-y"]})
    P.append(("slow-emitter-unschedule", dict(slow, threads=[[("unschedule", "w0")]])))
    P.append(("slow-emitter-stop", dict(slow, threads=[[("stop",)]])))
    if tier == "thorough":
        b3 = dict(init=[S("h0", "w0"), S("h1", "w0"), S("h2", "w1")], scripts={"w0": ["x", "y"], "w1": ["x", "y"]})
        P.append(("3h-remove-unschedule", dict(b3, threads=[[("remove", "h0", "w0")], [("unschedule", "w1")]])))
        P.append(("3h-reent-stop-ext-remove", dict(b3, threads=[[("remove", "h1", "w0")]],
                                                   reentrant={("h0", 1): ("stop",)})))
    return P


def setup(tier):
    wd.load()
    api = wd.mod("watchdog.observers.api")
    desc = vsched.instrument(
        line_modules=[api, wd.mod("watchdog.utils.bricks"), wd.mod("watchdog.utils")],
        instr_functions=[(api.BaseObserver, "dispatch_events")], exclude=obsfam.EXCLUDE)
    return [H(f"c05 {n}", p) for n, p in programs(tier)], desc


def run(ctx):
    hs, ctx.instrumented = setup(ctx.tier)
    obsfam.run_family(ctx, hs, deep_quick=("tiny-remove", "tiny-unschedule"))
