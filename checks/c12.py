"""C12 - every descriptor and thread is released exactly once, also on failure.

(a) close() against the reader thread of a real InotifyBuffer on the real kernel, every interleaving at
    instruction level in Inotify.close / read_events / _close_resources, descriptor shadow table;
(b) a failure injected at every kernel call of watch construction (inotify_init, each inotify_add_watch),
    through observer.schedule() on a running observer and through start() of a prepared observer;
(c) explicit-state BFS over schedule / unschedule / start / stop cycles on the real kernel with the descriptor
    and thread counts compared with a reference after every call.
"""

from __future__ import annotations

import errno
import os
import shutil

from wdmc import envshim, fsops, inoapi, vsched, wd
from wdmc import explore as ex

LEVEL = "model_checking"
RULE = ("(a) programs = (0/1/2 pending kernel events, close() issued by the main thread) over a real InotifyBuffer: all "
        "schedules of closer and reader with <= bound deviations, instruction-level points in Inotify.close/read_events/"
        "_close_resources and InotifyBuffer.run/on_thread_stop, every os/select/inotify seam call; (b) for every directory "
        "tree of the universe and every call position k of {inotify_init, add_watch_1..n} x errno {ENOENT, ENOSPC, EMFILE, "
        "EACCES} x {schedule on a running observer, start of a prepared observer}; (c) BFS over API cycles with state key "
        "(phase, scheduled watches, open descriptors, live library threads); oracle: shadow table (no use after close, no "
        "double close), descriptors/threads = 3 resp. 2 per live started watch and 0 otherwise")
ASSUMPTIONS = [
    "descriptors are tracked by a shadow table behind the os/select/inotify seams of inotify_c (every inotify_init and "
    "pipe() of the library goes through them); real kernel otherwise",
    "EACCES answers of inotify_add_watch are part of the fault alphabet although the library deliberately does not "
    "raise for them: only the release of descriptors/threads is judged",
]


# ------------------------------------------------------------------------------------------------
# (a) close vs reader
# ------------------------------------------------------------------------------------------------
class CloseHarness(ex.Harness):
    sched_kwargs = dict(max_steps=20000, timer_deviations=False, switch_cost=1)

    def __init__(self, pending, via):
        self.pending = pending      # number of kernel events pending when close() is called
        self.via = via              # "buffer" (InotifyBuffer.close) | "emitter" (InotifyEmitter.stop via observer)
        self.name = f"close pending={pending} via={via}"

    def body(self, s):
        ib = wd.mod("watchdog.observers.inotify_buffer")
        envshim.install()
        fsops._counter[0] += 1
        base = os.path.join(fsops.scratch_base(), "c12-%d" % fsops._counter[0])
        shutil.rmtree(base, ignore_errors=True)
        os.makedirs(os.path.join(base, "R"))
        shim = envshim.ShimState(seam_points=True)
        s.env["shim"] = shim
        try:
            R = os.fsencode(os.path.join(base, "R"))
            s.lib_creation = True
            buf = ib.InotifyBuffer(R, recursive=True)
            for i in range(self.pending):
                os.mknod(os.path.join(base, "R", "x%d" % i))
            if self.via == "rmroot":
                # the watched root disappears: the reader thread ends by itself, close() comes afterwards
                shutil.rmtree(os.path.join(base, "R"))
                s.idle("drain")
            elif self.via == "rmroot-race":
                shutil.rmtree(os.path.join(base, "R"))   # close() races the reader's own shutdown
            got = []
            if self.via == "consumer":
                def consumer():
                    while True:
                        e = buf.read_event()
                        if e is None:
                            break
                        got.append(1)
                t = vsched.vthreading.Thread(target=consumer, name="consumer")
                t.start()
            buf.close()
            if self.via == "consumer":
                t.join()
            alive = buf.is_alive()
            left = shim.cleanup()
            return dict(violations=list(shim.violations), leftover=left, reader_alive=alive)
        finally:
            shim.cleanup()
            shutil.rmtree(base, ignore_errors=True)

    def check(self, res):
        out = self.base_check(res)
        v = res.value
        if v is None:
            return out
        for kind, detail in v["violations"]:
            out.append(dict(kind=kind, msg=f"{kind}: {detail}; program={self.name}", fp=f"{kind}: {detail}"))
        if v["leftover"]:
            out.append(dict(kind="fd-leak", msg=f"descriptors still open after close() returned and the reader ended: "
                                                f"{v['leftover']}; program={self.name}",
                            fp="fd-leak after close(): " + ",".join(sorted(v["leftover"]))))
        if v["reader_alive"]:
            out.append(dict(kind="reader-alive", msg="reader thread alive after close()", fp="reader-alive-after-close"))
        return out


# ------------------------------------------------------------------------------------------------
# (b) fault at every kernel call of watch construction
# ------------------------------------------------------------------------------------------------
class FaultHarness(ex.Harness):
    sched_kwargs = dict(max_steps=100000, only_seams=True, timer_deviations=False, switch_cost=1)

    def __init__(self, tree, kind, k, err, mode):
        self.tree, self.kind, self.k, self.err, self.mode = tree, kind, k, err, mode
        self.name = f"fault tree={sorted(tree)} {kind}#{k}={errno.errorcode.get(err, err) if err else None} mode={mode}"

    def body(self, s):
        ino = wd.mod("watchdog.observers.inotify")
        evm = wd.mod("watchdog.events")
        envshim.install()
        fsops._counter[0] += 1
        base = os.path.join(fsops.scratch_base(), "c12-%d" % fsops._counter[0])
        shutil.rmtree(base, ignore_errors=True)
        R = os.path.join(base, "R")
        os.makedirs(R)
        fsops.build_tree(R, self.tree)
        faults = {(self.kind, self.k): self.err} if self.err else {}
        shim = envshim.ShimState(seam_points=False, faults=faults)
        s.env["shim"] = shim
        obs = None
        try:
            s.lib_creation = True
            obs = ino.InotifyObserver()
            h = evm.FileSystemEventHandler()
            raised = None
            BaseThread = wd.mod("watchdog.utils").BaseThread

            def lib_threads():
                return sorted(t.name for t in s.live_threads() if isinstance(t.obj, BaseThread))

            if self.mode == "running":
                obs.start()
                try:
                    obs.schedule(h, R, recursive=True)
                except Exception as e:  # noqa: BLE001
                    raised = getattr(e, "errno", None) or type(e).__name__
            else:
                obs.schedule(h, R, recursive=True)
                try:
                    obs.start()
                except Exception as e:  # noqa: BLE001
                    raised = getattr(e, "errno", None) or type(e).__name__
            s.idle("drain")
            after_call = dict(fds=len(shim.open_fds()), threads=lib_threads(), emitters=len(obs.emitters))
            obs.stop()
            try:
                obs.join()
            except RuntimeError:
                pass
            s.idle("drain")
            end = dict(fds=len(shim.open_fds()), threads=lib_threads())
            ncalls = dict(shim.counts)
            left = shim.cleanup()
            return dict(raised=raised, after_call=after_call, end=end, violations=list(shim.violations), calls=ncalls,
                        leftover=left)
        finally:
            shim.cleanup()
            shutil.rmtree(base, ignore_errors=True)

    def check(self, res):
        out = self.base_check(res, allow_leak=True)
        v = res.value
        if v is None:
            return out
        tag = f"{self.kind} {errno.errorcode.get(self.err, '') if self.err else 'none'} mode={self.mode}"
        for kind, detail in v["violations"]:
            out.append(dict(kind=kind, msg=f"{kind}: {detail}; program={self.name}", fp=f"{kind}: {detail}"))
        if v["raised"] is not None:
            a = v["after_call"]
            started = self.mode == "running" or False
            exp_threads = 1 if self.mode == "running" else 0     # only the dispatcher of a running observer
            if a["fds"] != 0:
                out.append(dict(kind="fd-leak-on-failure",
                                msg=f"{a['fds']} descriptors left open after the failing call ({self.name}); {v}",
                                fp=f"fd-leak after failed {'schedule()' if self.mode == 'running' else 'start()'}"))
            if len(a["threads"]) > exp_threads:
                out.append(dict(kind="thread-leak-on-failure",
                                msg=f"threads {a['threads']} alive after the failing call ({self.name})",
                                fp=f"thread-leak after failed {'schedule()' if self.mode == 'running' else 'start()'}"))
            if a["emitters"] != 0:
                out.append(dict(kind="emitter-kept-on-failure", msg=f"observer.emitters still lists {a['emitters']} emitter "
                                                                    f"after the failing call ({self.name})",
                                fp=f"emitter kept after failed {'schedule()' if self.mode == 'running' else 'start()'}"))
        e = v["end"]
        if e["fds"] != 0 or v["leftover"]:
            out.append(dict(kind="fd-leak", msg=f"{e['fds']} descriptors still open after stop()+join() ({self.name}); {v}",
                            fp="fd-leak after stop()+join()" + (" following a failed call" if v["raised"] is not None else "")))
        if e["threads"]:
            out.append(dict(kind="thread-leak", msg=f"threads {e['threads']} alive after stop()+join() ({self.name})",
                            fp="thread-leak after stop()+join()"))
        return out


def dir_trees():
    return [t for t in fsops.small_trees(4) if all(k == "d" for k in t.values())]


# ------------------------------------------------------------------------------------------------
# (c) BFS over API cycles
# ------------------------------------------------------------------------------------------------
OPS = [("schedule", "p1"), ("schedule", "p2"), ("schedule", "missing"), ("unschedule", "p1"), ("unschedule", "p2"),
       ("unschedule_all",), ("start",), ("stop_join",), ("new",)]


class CycleHarness(ex.Harness):
    sched_kwargs = dict(max_steps=200000, only_seams=True, timer_deviations=False, switch_cost=1)

    def __init__(self, hist):
        self.hist = tuple(hist)
        self.name = "cycle " + " ".join(".".join(o) for o in hist)

    def body(self, s):
        ino = wd.mod("watchdog.observers.inotify")
        evm = wd.mod("watchdog.events")
        envshim.install()
        fsops._counter[0] += 1
        base = os.path.join(fsops.scratch_base(), "c12-%d" % fsops._counter[0])
        shutil.rmtree(base, ignore_errors=True)
        for p in ("p1", "p2"):
            os.makedirs(os.path.join(base, p, "sub"))
        shim = envshim.ShimState(seam_points=False)
        s.env["shim"] = shim
        BaseThread = wd.mod("watchdog.utils").BaseThread
        problems = []
        try:
            s.lib_creation = True
            obs = ino.InotifyObserver()
            h = evm.FileSystemEventHandler()
            phase, sched = "new", set()
            watches = {}
            key = None
            for i, op in enumerate(self.hist):
                k = op[0]
                raised = None
                try:
                    if k == "schedule":
                        w = obs.schedule(h, os.path.join(base, op[1]), recursive=True)
                        watches[op[1]] = w
                        sched.add(op[1])
                    elif k == "unschedule":
                        obs.unschedule(watches[op[1]])
                        sched.discard(op[1])
                    elif k == "unschedule_all":
                        obs.unschedule_all()
                        sched.clear()
                    elif k == "start":
                        obs.start()
                        phase = "running"
                    elif k == "stop_join":
                        obs.stop()
                        obs.join()
                        phase = "stopped"
                        sched.clear()
                    elif k == "new":
                        if phase == "running":
                            obs.stop()
                            obs.join()
                        else:
                            obs.stop()
                        obs = ino.InotifyObserver()
                        phase, sched, watches = "new", set(), {}
                except vsched.Abort:
                    raise
                except Exception as e:  # noqa: BLE001
                    raised = type(e).__name__
                s.idle("drain")
                fds = len(shim.open_fds())
                threads = len([t for t in s.live_threads() if isinstance(t.obj, BaseThread)])
                alive_em = sum(1 for e in obs.emitters if e.is_alive())
                obs_alive = 1 if obs.is_alive() else 0
                exp_fds, exp_thr = 3 * alive_em, obs_alive + 2 * alive_em
                if raised is not None and k == "start":
                    phase = "start-failed"     # other emitters may have been started already (not the affected watch)
                    sched.discard("missing")
                if i == len(self.hist) - 1:
                    if fds != exp_fds:
                        problems.append(("fds", f"{fds} descriptors open but {alive_em} live emitters (3 each) "
                                                f"(phase {phase}, scheduled {sorted(sched)}, last call {op} raised {raised})"))
                    if threads != exp_thr:
                        problems.append(("threads", f"{threads} library threads alive, {alive_em} live emitters (2 each) + "
                                                    f"{obs_alive} dispatcher expected (phase {phase}, last call {op} raised {raised})"))
                    want_em = len(sched) if phase == "running" else (0 if phase in ("new", "stopped") else None)
                    if want_em is not None and alive_em != want_em:
                        problems.append(("emitters", f"{alive_em} live emitters, reference says {want_em} "
                                                     f"(phase {phase}, scheduled {sorted(sched)}, last call {op} raised {raised})"))
                key = (phase, tuple(sorted(sched)), fds, threads)
            try:
                obs.stop()
                if phase != "new":
                    obs.join()
            except Exception:  # noqa: BLE001
                pass
            s.idle("drain")
            viol = list(shim.violations)
            shim.cleanup()
            return dict(problems=problems, key=key, violations=viol, phase=phase, sched=sorted(sched))
        finally:
            shim.cleanup()
            shutil.rmtree(base, ignore_errors=True)


def applicable(phase, sched, op):
    k = op[0]
    if k == "schedule":
        return phase != "stopped"
    if k == "unschedule":
        return op[1] in sched
    if k == "start":
        return phase == "new"
    if k == "stop_join":
        return phase == "running"
    if phase == "start-failed":
        return k in ("new", "unschedule_all")
    return True


_W = {}


def _run_cycle(hist):
    h = CycleHarness(hist)
    res = ex.run_one(h, b"")
    if res.harness_error or res.abort or res.value is None:
        return dict(infra=f"{h.name}: harness_error={res.harness_error} abort={res.abort}")
    v = res.value
    if res.errors:
        v["problems"].append(("thread-error", str(res.errors)))
    return v


def _init():
    ex.pin_cpu(os.getpid() % 64)


def cycles_bfs(ctx, max_depth, cap):
    import multiprocessing

    mp = multiprocessing.get_context("fork")
    seen = set()
    frontier = [((), "new", frozenset())]
    transitions = 0
    states = 1
    samples = []
    closed = False
    with mp.Pool(fsops.fs_workers(ctx), initializer=_init) as pool:
        for depth in range(max_depth):
            jobs = []
            for hist, phase, sched in frontier:
                for op in OPS:
                    if applicable(phase, sched, op):
                        jobs.append(hist + (op,))
            if transitions + len(jobs) > cap:
                jobs = jobs[: max(0, cap - transitions)]
            nxt = []
            for hist, r in zip(jobs, pool.imap(_run_cycle, jobs, chunksize=4)):
                transitions += 1
                if r.get("infra"):
                    ctx.add_violation(dict(kind="harness-error", msg=r["infra"], fp="harness-error", infra=True))
                    continue
                bad = False
                for kind, msg in r["problems"]:
                    bad = True
                    last = hist[-1]
                    ctx.add_violation(dict(kind=kind, fp=f"cycle {kind} after {'.'.join(last) if last[0] != 'schedule' else 'schedule.' + ('missing' if last[1] == 'missing' else 'dir')}",
                                           msg=f"{msg}; history={hist}", prefix=[], harness="cycle", history=[list(o) for o in hist]))
                for kind, detail in r["violations"]:
                    bad = True
                    ctx.add_violation(dict(kind=kind, fp=f"{kind}: {detail}", msg=f"{kind}: {detail}; history={hist}", prefix=[],
                                           harness="cycle", history=[list(o) for o in hist]))
                if bad:
                    continue
                key = tuple(r["key"][:2]) + tuple(r["key"][2:])
                if key in seen:
                    continue
                seen.add(key)
                states += 1
                if len(samples) < 2 and len(hist) >= 3:
                    samples.append(dict(history=[".".join(o) for o in hist], state=repr(key)))
                nxt.append((hist, r["phase"], frozenset(r["sched"])))
            frontier = nxt
            if not frontier:
                closed = True
                break
    ctx.executions += transitions
    ctx.add_enum("api-cycles-bfs", 0, 0, samples, states=states, transitions=transitions, exhaustive=closed,
                 extra=dict(closed=closed, depth=max_depth))


def setup(tier):
    wd.load()
    envshim.install()
    ic = wd.mod("watchdog.observers.inotify_c")
    ib = wd.mod("watchdog.observers.inotify_buffer")
    I, B = ic.Inotify, ib.InotifyBuffer
    desc = vsched.instrument(line_modules=[I, B], instr_functions=[(I, "close"), (I, "read_events"), (I, "_close_resources"),
                                                                  (B, "run"), (B, "on_thread_stop"), (B, "close")],
                             exclude=("Inotify.__init__", "Inotify._add_dir_watch", "Inotify._add_watch", "Inotify._parse_event_buffer",
                                      "InotifyBuffer.__init__", "Inotify._raise_error"))
    hs = [CloseHarness(p, via) for p in (0, 1, 2) for via in ("buffer", "consumer")]
    hs += [CloseHarness(p, via) for p in (0, 1) for via in ("rmroot", "rmroot-race")]
    inoapi.instrument()
    hs += [ApiLeak(f"c12 {n}", p) for n, p in inoapi.programs(tier) if p["kind"] == "inotify"]
    return hs, desc


class ApiLeak(inoapi.ApiHarness):
    """API programs over the real InotifyObserver: descriptors and threads after the final stop()+join()."""

    def check(self, res):
        out = self.base_check(res, allow_errors=True, allow_leak=True)
        v = res.value
        if v is None or res.abort:
            return out
        for kind, detail in v["fd_violations"]:
            out.append(dict(kind=kind, msg=f"{kind}: {detail}; program={self.name}", fp=f"{kind}: {detail}"))
        if v["leftover"]:
            out.append(dict(kind="fd-leak", msg=f"descriptors still open after stop()+join(): {v['leftover']}; "
                                                f"program={self.prog}; log={v['log']}",
                            fp="fd-leak after stop()+join(): " + ",".join(sorted(set(v["leftover"])))))
        if v["lib_alive"]:
            out.append(dict(kind="thread-leak", msg=f"library threads alive after stop()+join(): {v['lib_alive']}; program={self.prog}",
                            fp="thread-leak after stop()+join()"))
        return out


def replay(rec):
    if rec.get("harness") == "cycle":
        wd.load()
        r = _run_cycle(tuple(tuple(o) for o in rec["history"]))
        print(r)
        return 1 if r.get("problems") or r.get("violations") else 0
    from wdmc import runner
    hs, _ = setup("thorough")
    hs = hs + fault_harnesses("thorough")
    import types
    return runner.replay(types.SimpleNamespace(setup=lambda t: (hs, None)), rec["_path"]) if "_path" in rec else 2


def fault_harnesses(tier):
    hs = []
    trees = dir_trees()
    if tier == "quick":
        trees = [t for t in trees if len(t) <= 3]
    errs = [errno.ENOENT, errno.ENOSPC, errno.EMFILE, errno.EACCES]
    for t in trees:
        for mode in ("running", "prepared"):
            hs.append(FaultHarness(t, "none", 0, 0, mode))
            for e in errs:
                if e in (errno.EMFILE, errno.ENOSPC):   # ENOSPC stands in for ENFILE/ENOMEM: any documented failure
                    hs.append(FaultHarness(t, "inotify_init", 0, e, mode))
                for k in range(len(t) + 1):
                    hs.append(FaultHarness(t, "add_watch", k, e, mode))
    return hs


def run(ctx):
    hs, ctx.instrumented = setup(ctx.tier)
    q = ctx.tier == "quick"
    ctx.explore_many([(h, (1 if isinstance(h, ApiLeak) else 2) if q else (2 if isinstance(h, ApiLeak) else 3)) for h in hs],
                     cap=1_500_000 if q else 40_000_000, workers=fsops.fs_workers(ctx))
    ctx.explore_many([(h, 0) for h in fault_harnesses(ctx.tier)], cap=200_000, selftest=False, workers=fsops.fs_workers(ctx))
    cycles_bfs(ctx, 10 if q else 16, 20000 if q else 400000)
