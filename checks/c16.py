"""C16 - the event queue drops only true consecutive duplicates and never anything else.

(a) explicit-state BFS over all put/get_nowait sequences on the real EventQueue against a permissive
    sequential reference (a drop is *allowed* only for an item equal to the last enqueued, still waiting
    one; it is never demanded);
(b) up to three producers and a consumer under the deterministic scheduler, every complete
    interleaving checked for linearizability w.r.t. that reference (brute force);
(c) equality / hash law over all pairs of event objects of a small universe.
"""

from __future__ import annotations

import itertools

from wdmc import explore as ex
from wdmc import vsched, wd

LEVEL = "model_checking"
RULE = ("(a) BFS over put(a1)/put(a2)/put(b)/get_nowait histories, canonical state = (queued item ids, last-item "
        "marker); (b) producer/consumer programs x all schedules with <= bound deviations (instruction-level "
        "points in SkipRepeatsQueue.put/_put/_get, every queue-internal lock/condition operation), outcome = "
        "delivered sequence; (c) all ordered pairs of events; distinct = distinct canonical states / outcomes")
ASSUMPTIONS = [
    "coalescing is optional: the oracle only forbids losing an item that is not equal to the last enqueued, "
    "still waiting item (the statement grants the permission to drop, it does not demand the drop)",
]


def _items():
    ev = wd.mod("watchdog.events")
    api = wd.mod("watchdog.observers.api")
    w = api.ObservedWatch("/r", recursive=True)
    a1 = (ev.FileCreatedEvent("/r/a"), w)
    a2 = (ev.FileCreatedEvent("/r/a"), api.ObservedWatch("/r", recursive=True))
    b = (ev.FileCreatedEvent("/r/b"), w)
    c = (ev.DirCreatedEvent("/r/a"), w)
    return dict(a1=a1, a2=a2, b=b, c=c)


# ------------------------------------------------------------------------------------------------
# (a) sequential BFS
# ------------------------------------------------------------------------------------------------
def sequential_bfs(ctx, depth):
    import queue as realq

    api = wd.mod("watchdog.observers.api")
    items = _items()
    names = {id(v): k for k, v in items.items()}
    alphabet = [("put", "a1"), ("put", "a2"), ("put", "b"), ("get",)]

    def build(hist):
        """Replay a history on a fresh real queue, checking every step against the reference."""
        q = api.EventQueue()
        model = []  # reference queue of item names; the last enqueued item, while waiting, is its tail
        for i, op in enumerate(hist):
            last = model[-1] if model else None
            if op[0] == "put":
                it = items[op[1]]
                before = q.qsize()
                q.put(it)
                grew = q.qsize() - before
                if grew == 1:
                    model.append(op[1])
                elif grew == 0:
                    if not (last is not None and items[last] == it):
                        return None, f"put({op[1]}) was dropped after history {hist[:i]} although the last " \
                                     f"enqueued item ({last}) is not an equal, still waiting item", model
                else:
                    return None, f"put changed the size by {grew}", model
            else:
                try:
                    got = q.get_nowait()
                except realq.Empty:
                    got = None
                exp = model[0] if model else None
                gname = None if got is None else names.get(id(got), "?")
                if gname != exp:
                    return None, f"get after {hist[:i]} returned {gname}, reference says {exp}", model
                if model:
                    model.pop(0)
        try:
            key = (tuple(names.get(id(x), "?") for x in q.queue), names.get(id(q._last_item)))
        except AttributeError:
            key = tuple(hist)
        return key, None, model

    seen = {build(())[0]}
    frontier = [()]
    transitions = 0
    samples = []
    for _ in range(depth):
        nxt = []
        for hist in frontier:
            for op in alphabet:
                h2 = hist + (op,)
                key, err, _ = build(h2)
                transitions += 1
                if err:
                    ctx.add_violation(dict(kind="seq-reference", msg=err, fp="seq: " + err.split(" after ")[0][:60],
                                           prefix=[], harness="sequential", history=[list(o) for o in h2]))
                    continue
                if key not in seen:
                    seen.add(key)
                    nxt.append(h2)
                    if len(samples) < 2 and len(h2) >= 4:
                        samples.append(dict(history=[list(o) for o in h2], state=repr(key)))
        frontier = nxt
        if not frontier:
            break
    ctx.add_enum("sequential-bfs", transitions, len(seen), samples, states=len(seen), transitions=transitions,
                 extra=dict(depth=depth, closed=not frontier))


# ------------------------------------------------------------------------------------------------
# (b) concurrent producers / consumer
# ------------------------------------------------------------------------------------------------
class QHarness(ex.Harness):
    sched_kwargs = dict(max_steps=6000, timer_deviations=False)

    def __init__(self, producers, prefill=()):
        self.producers = tuple(tuple(p) for p in producers)
        self.prefill = tuple(prefill)
        self.name = "q prefill=" + "".join(self.prefill) + " producers=" + "|".join(",".join(p) for p in self.producers)

    def body(self, s):
        api = wd.mod("watchdog.observers.api")
        T = vsched.vthreading.Thread
        items = _items()
        names = {id(v): k for k, v in items.items()}
        q = api.EventQueue()
        for n in self.prefill:
            q.put(items[n])
        log = []
        stop = ("STOP",)

        def producer(i):
            for n in self.producers[i]:
                log.append(("call", ("put", i, n)))
                q.put(items[n])
                log.append(("ret", ("put", i, n)))

        def consumer():
            k = 0
            while True:
                log.append(("call", ("get", k)))
                e = q.get()
                r = "STOP" if e is stop else names.get(id(e), "?")
                log.append(("ret", ("get", k), r))
                k += 1
                if e is stop:
                    break

        ts = [T(target=producer, args=(i,), name=f"producer{i}") for i in range(len(self.producers))]
        c = T(target=consumer, name="consumer")
        c.start()
        for t in ts:
            t.start()
        for t in ts:
            t.join()
        q.put(stop)
        c.join()
        return log

    def _prefill_variants(self, items):
        out = [()]
        for name in self.prefill:
            nxt = []
            for q in out:
                nxt.append(q + (name,))
                if q and items[q[-1]] == items[name]:
                    nxt.append(q)
            out = nxt
        return out

    def outcome(self, res):
        if res.value is None:
            return repr((res.abort and res.abort[0], res.errors))
        return repr(([e[2] for e in res.value if e[0] == "ret" and e[1][0] == "get"],
                     res.abort and res.abort[0], res.errors, res.leaked))

    def check(self, res):
        out = self.base_check(res)
        if res.value is None or res.abort:
            return out
        log = res.value
        items = _items()
        # operation intervals
        ops = {}
        for i, e in enumerate(log):
            if e[0] == "call":
                ops[e[1]] = [i, None, None]
            else:
                ops[e[1]][1] = i
                if len(e) > 2:
                    ops[e[1]][2] = e[2]
        delivered = [o[2] for k, o in sorted(ops.items(), key=lambda kv: kv[1][0]) if k[0] == "get" and o[2] != "STOP"]
        keys = list(ops)
        n = len(keys)
        gets = [k for k in keys if k[0] == "get"]
        # brute-force linearization against the permissive reference
        import functools

        order_after = {k: [j for j in keys if ops[j][1] is not None and ops[j][1] < ops[k][0]] for k in keys}

        @functools.lru_cache(maxsize=None)
        def search(done, queue):
            if len(done) == n:
                return True
            dset = set(done)
            last = queue[-1] if queue else None
            for k in keys:
                if k in dset or any(j not in dset for j in order_after[k]):
                    continue
                nd = tuple(sorted(dset | {k}))
                if k[0] == "put":
                    name = k[2]
                    if search(nd, queue + (name,)):
                        return True
                    if last is not None and items[last] == items[name] and search(nd, queue):
                        return True
                else:
                    r = ops[k][2]
                    if r == "STOP":
                        if not queue and search(nd, queue):
                            return True
                    elif queue and queue[0] == r:
                        if search(nd, queue[1:]):
                            return True
            return False

        # the prefill is put sequentially before the threads start (dropping is optional there as well,
        # but sequential behaviour is the business of part (a): follow the delivered sequence)
        ok = any(search((), q0) for q0 in self._prefill_variants(items))
        if not ok:
            out.append(dict(kind="not-linearizable",
                            msg=f"delivered {delivered} for producers {self.producers} prefill {self.prefill} is not "
                                f"explained by any linearization of the permissive reference; log={log}",
                            fp="not-linearizable"))
        return out


def harnesses(tier):
    hs = []
    progs = [
        (("a1",), ("a2",)), (("a1",), ("b",)), (("a1", "b"), ("a2",)), (("a1", "a2"), ("b",)),
        (("a1",), ("a2",), ("b",)), (("a1", "b"), ("b", "a2")),
    ]
    for p in progs:
        hs.append(QHarness(p))
    for p in [(("a2",),), (("a2",), ("b",)), (("b", "a2"),), (("a2", "b"), ("a1",))]:
        hs.append(QHarness(p, prefill=("a1",)))
    if tier == "thorough":
        for p in [(("a1", "b"), ("a2", "b"), ("c",)), (("a1", "a2"), ("a2", "a1")), (("a1",), ("a2",), ("a1",))]:
            hs.append(QHarness(p))
        hs.append(QHarness((("a2", "b"), ("b", "a1")), prefill=("a1", "b")))
    return hs


def setup(tier):
    wd.load()
    br = wd.mod("watchdog.utils.bricks")
    C = br.SkipRepeatsQueue
    desc = vsched.instrument(line_modules=[br], instr_functions=[(C, "put"), (C, "_put"), (C, "_get")])
    return harnesses(tier), desc


# ------------------------------------------------------------------------------------------------
# (c) equality law
# ------------------------------------------------------------------------------------------------
def equality_law(ctx):
    ev = wd.mod("watchdog.events")
    classes = [ev.FileSystemEvent, ev.FileSystemMovedEvent, ev.FileMovedEvent, ev.DirMovedEvent,
               ev.FileModifiedEvent, ev.DirModifiedEvent, ev.FileCreatedEvent, ev.DirCreatedEvent,
               ev.FileDeletedEvent, ev.DirDeletedEvent, ev.FileClosedEvent, ev.FileClosedNoWriteEvent,
               ev.FileOpenedEvent]
    objs = []
    for cls in classes:
        for src in ("a", "b"):
            for dest in ("", "a", "b"):
                for syn in (False, True):
                    try:
                        o = cls(src, dest, is_synthetic=syn)
                    except TypeError:
                        continue
                    objs.append((cls, (src, dest, syn), o))
    n = 0
    bad = 0
    samples = []
    for (c1, f1, o1), (c2, f2, o2) in itertools.product(objs, repeat=2):
        n += 1
        exp = c1 is c2 and f1 == f2
        got = (o1 == o2)
        ne = (o1 != o2)
        if got != exp or ne == got or (got and hash(o1) != hash(o2)):
            bad += 1
            ctx.add_violation(dict(kind="equality", fp="equality-law",
                                   msg=f"{o1!r} == {o2!r} is {got} (expected {exp}), != is {ne}, hashes "
                                       f"{hash(o1)} {hash(o2)}", prefix=[], harness="equality"))
        elif len(samples) < 2 and exp and o1 is not o2:
            samples.append(dict(a=repr(o1), b=repr(o2), equal=got))
    ctx.add_enum("equality-law", n, len(objs), samples, extra=dict(objects=len(objs)))


def run(ctx):
    hs, ctx.instrumented = setup(ctx.tier)
    sequential_bfs(ctx, 7 if ctx.tier == "quick" else 10)
    equality_law(ctx)
    q = ctx.tier == "quick"
    def bound(h):
        nput = sum(len(p) for p in h.producers)
        if q:
            return 1 if len(h.producers) >= 3 else 2
        return 3 if (len(h.producers) <= 2 and nput <= 3) else 2
    jobs = [(h, bound(h)) for h in hs]
    ctx.explore_many(jobs, cap=3_000_000 if q else 60_000_000)
