"""C04 - queued events reach each registered handler exactly once, in order, and no one else."""

from __future__ import annotations

from wdmc import obsfam, vsched, wd

LEVEL = "model_checking"
RULE = ("client program = (initial schedules, emitter scripts, application threads issuing registry calls, optional "
        "re-entrant call from a callback) over the real BaseObserver with a scripted emitter class; for each program "
        "all schedules of emitter, dispatcher and application threads with <= bound preemptions (line-level points "
        "in api.py / bricks.py / utils/__init__.py, instruction-level in dispatch_events, every lock/condition/queue "
        "operation); distinct = distinct (callback sequence, call results) outcomes")
ASSUMPTIONS = [
    "a handler counts as possibly registered from the start of a registering call until the return of a removing "
    "call, and as certainly registered from the return of the registering call until the start of any removing call",
    "an event equal to its predecessor in the same emitter's script may be coalesced (missing)",
]


class H(obsfam.ObsHarness):
    def check(self, res):
        # "registered for that watch at the time it is dispatched": the callback-after-removal clause of the
        # shared oracle is part of C04's routing rule as well
        return self.base_check(res) + obsfam.check_dispatch(self, res, c04=True, c05=True)


def programs(tier):
    P = []
    S = lambda h, w: ("schedule", h, w)
    # 1 watch, 2 handlers
    base1 = dict(init=[S("h0", "w0"), S("h1", "w0")], scripts={"w0": ["x", "y"]})
    P.append(("1w2h", dict(base1)))
    P.append(("1w2h-dup", dict(base1, scripts={"w0": ["x", "x", "y"]})))
    P.append(("1w2h-remove", dict(base1, threads=[[("remove", "h1", "w0")]])))
    P.append(("1w2h-add", dict(init=[S("h0", "w0")], scripts={"w0": ["x", "y"]}, threads=[[("add", "h1", "w0")]])))
    P.append(("1w2h-remove-add", dict(base1, threads=[[("remove", "h1", "w0"), ("add", "h1", "w0")]])))
    P.append(("1w2h-reent-remove-other", dict(base1, reentrant={("h0", 0): ("remove", "h1", "w0")})))
    P.append(("1w2h-reent-remove-self", dict(base1, reentrant={("h1", 0): ("remove", "h1", "w0")})))
    P.append(("1w2h-reent-add", dict(init=[S("h0", "w0")], scripts={"w0": ["x", "y"]},
                                     reentrant={("h0", 0): ("add", "h1", "w0")})))
    for caller in ("h0", "h1"):
        for op in (("unschedule", "w0"), ("unschedule_all",), ("stop",)):
            P.append((f"1w2h-reent-{op[0]}-by-{caller}", dict(base1, reentrant={(caller, 0): op})))
    # 2 watches, 1 shared handler
    base2 = dict(init=[S("h0", "w0"), S("h0", "w1")], scripts={"w0": ["x", "y"], "w1": ["x"]})
    P.append(("2w1h", dict(base2)))
    P.append(("2w1h-unschedule", dict(base2, threads=[[("unschedule", "w1")]])))
    P.append(("2w1h-unsched-resched", dict(base2, threads=[[("unschedule", "w1"), S("h1", "w1")]])))
    P.append(("2w1h-reent-unschedule", dict(base2, reentrant={("h0", 0): ("unschedule", "w1")})))
    # 2 equal watches sharing one emitter (+ a recursive twin of the same path = another watch)
    base3 = dict(init=[S("h0", "w0"), S("h1", "w0"), S("h2", "w0r")], scripts={"w0": ["x", "y"], "w0r": ["x"]})
    P.append(("eqw", dict(base3)))
    P.append(("eqw-unschedule", dict(base3, threads=[[("unschedule", "w0")]])))
    P.append(("eqw-sched-late", dict(init=[S("h0", "w0")], scripts={"w0": ["x", "y"]}, threads=[[S("h1", "w0")]])))
    # 3 watches 3 handlers, two application threads
    base4 = dict(init=[S("h0", "w0"), S("h1", "w1"), S("h2", "w2")],
                 scripts={"w0": ["x"], "w1": ["x"], "w2": ["x"]})
    P.append(("3w3h", dict(base4)))
    P.append(("3w3h-2threads", dict(base4, threads=[[("unschedule", "w0")], [("add", "h0", "w1")]])))
    P.append(("3w3h-unschedule_all", dict(base4, threads=[[("unschedule_all",)]])))
    P.append(("2threads-sched-unsched", dict(init=[S("h0", "w0")], scripts={"w0": ["x", "y"], "w1": ["x"]},
                                             threads=[[S("h1", "w1"), ("unschedule", "w1")], [("add", "h2", "w0")]])))
    P.append(("2threads-remove-both", dict(base1, threads=[[("remove", "h0", "w0")], [("remove", "h1", "w0")]])))
    P.append(("reent-unschedule_all", dict(base2, reentrant={("h0", 1): ("unschedule_all",)})))
    P.append(("reent-schedule", dict(init=[S("h0", "w0")], scripts={"w0": ["x", "y"], "w1": ["x"]},
                                     reentrant={("h0", 0): S("h1", "w1")})))
    P.append(("unsched||sched-same-watch", dict(init=[S("h0", "w0")], scripts={"w0": ["x", "y"]},
                                                threads=[[("unschedule", "w0")], [S("h1", "w0")]])))
    if tier == "thorough":
        P.append(("1w3h-3events", dict(init=[S("h0", "w0"), S("h1", "w0"), S("h2", "w0")],
                                       scripts={"w0": ["x", "x", "y"]}, threads=[[("remove", "h1", "w0")]])))
        P.append(("2threads-4calls", dict(base2, threads=[[("unschedule", "w0"), S("h1", "w0")],
                                                          [("remove", "h0", "w1"), ("add", "h2", "w1")]])))
    return P


def setup(tier):
    wd.load()
    api = wd.mod("watchdog.observers.api")
    desc = vsched.instrument(
        line_modules=[api, wd.mod("watchdog.utils.bricks"), wd.mod("watchdog.utils")],
        instr_functions=[(api.BaseObserver, "dispatch_events")],
        exclude=obsfam.EXCLUDE)
    return [H(f"c04 {n}", p) for n, p in programs(tier)], desc


def run(ctx):
    hs, ctx.instrumented = setup(ctx.tier)
    obsfam.run_family(ctx, hs, deep_quick=("1w2h",))
