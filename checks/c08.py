"""C08 - a rename arrives as one paired move; no native event is lost or duplicated.

Real InotifyBuffer + DelayedQueue with a scripted Inotify: all native sequences over a small alphabet,
all cuts into read batches, inter-batch gaps around the pairing delay on the virtual clock, all
interleavings of kernel / reader / consumer threads up to a deviation bound.
"""

from __future__ import annotations

import itertools

from wdmc import explore as ex
from wdmc import vsched, wd

LEVEL = "model_checking"
RULE = ("program = (native event sequence over {MOVED_FROM/MOVED_TO cookie 1 and 2, MOVED_TO without partner, CREATE, "
        "DELETE, IGNORED(sub)}, cut into read batches, inter-batch gap in {0, d/2, d, 3d/2}); for each program all "
        "schedules of kernel, reader (InotifyBuffer.run), consumer (read_event loop) with <= bound deviations "
        "(line-level points in inotify_buffer.py, instruction-level in DelayedQueue, early timer expiry); distinct = "
        "distinct sequences of consumer results")
ASSUMPTIONS = [
    "Inotify is scripted (its read_events() hands out the harness' batches); InotifyBuffer, its grouping and the "
    "DelayedQueue are the real code",
    "pairing is demanded only when the reader finished processing the MOVED_TO batch at a virtual time earlier than "
    "delivery(MOVED_FROM batch) + delay: the FROM half provably still sat in the queue then",
    "never-early is checked against the virtual time its batch was returned by read_events (insertion is not earlier)",
]

D = 0.5
SYMS = ["F1", "T1", "F2", "T2", "T3", "C", "D", "I"]


def valid(seq):
    if len(set(seq)) != len(seq):
        return False
    for k in ("1", "2"):
        if "T" + k in seq and ("F" + k not in seq or seq.index("F" + k) > seq.index("T" + k)):
            return False
    if "F2" in seq and "F1" not in seq:
        return False  # symmetry: cookie 2 only together with cookie 1
    return True


class BufHarness(ex.Harness):
    sched_kwargs = dict(max_steps=8000, switch_cost=1)

    def __init__(self, seq, cut, gap):
        self.seq = tuple(seq)
        self.cut = tuple(cut)   # batch sizes
        self.gap = gap
        self.name = f"buf {' '.join(seq)} cut={'+'.join(map(str, cut))} gap={gap}"

    def body(self, s):
        ib = wd.mod("watchdog.observers.inotify_buffer")
        ic = wd.mod("watchdog.observers.inotify_c")
        K = ic.InotifyConstants
        T = vsched.vthreading.Thread
        log = []
        root = b"/r"
        masks = dict(F=K.IN_MOVED_FROM, T=K.IN_MOVED_TO, C=K.IN_CREATE, D=K.IN_DELETE, I=K.IN_IGNORED)
        evs = []
        for i, sym in enumerate(self.seq):
            cookie = int(sym[1]) if sym[0] in "FT" else 0
            if sym == "I":
                e = ic.InotifyEvent(5, masks["I"], 0, b"", root + b"/sub")
            else:
                e = ic.InotifyEvent(1, masks[sym[0]], cookie, b"n%d" % i, root + b"/n%d" % i)
            evs.append(e)
        idx = {id(e): i for i, e in enumerate(evs)}
        batches = []
        p = 0
        for n in self.cut:
            batches.append(evs[p:p + n])
            p += n
        pending = []
        state = dict(closed=False, nbatch=0)

        class ScriptedInotify:
            def __init__(self, path, *, recursive=False, event_mask=None, follow_symlink=False):
                self.path = path

            def read_events(self, **kw):
                log.append(("read_call", s.clock))
                s.block(lambda: state["closed"] or pending, desc="scripted-read")
                if state["closed"]:
                    return []
                b = pending.pop(0)
                log.append(("read_ret", b[0], s.clock))
                return list(b[1])

            def close(self):
                s.point("scripted-close")
                state["closed"] = True

        saved = ib.Inotify
        ib.Inotify = ScriptedInotify
        try:
            s.lib_creation = True
            buf = ib.InotifyBuffer(root, recursive=True)
            s.lib_creation = False

            def kernel():
                for i, b in enumerate(batches):
                    if i and self.gap:
                        vsched.vtime.sleep(self.gap)
                    log.append(("deliver", i, s.clock))
                    pending.append((i, b))

            def consumer():
                while True:
                    r = buf.read_event()
                    if r is None:
                        log.append(("out", None, s.clock))
                        break
                    if isinstance(r, tuple):
                        log.append(("out", (idx.get(id(r[0]), -1), idx.get(id(r[1]), -1)), s.clock))
                    else:
                        log.append(("out", idx.get(id(r), -1), s.clock))
                r = buf.read_event()
                log.append(("out2", None if r is None else "event", s.clock))

            tk = T(target=kernel, name="kernel")
            tc = T(target=consumer, name="consumer")
            tc.start()
            tk.start()
            s.idle("drain")
            log.append(("quiescent", s.clock))
            buf.close()
            log.append(("closed", s.clock))
            tk.join()
            tc.join()
        finally:
            ib.Inotify = saved
        return log

    def outcome(self, res):
        if res.value is None:
            return repr((res.abort and res.abort[0], res.errors))
        return repr(([e[1] for e in res.value if e[0] in ("out", "out2")], res.abort and res.abort[0], res.errors))

    def check(self, res):
        out = self.base_check(res)
        if res.value is None or res.abort:
            return out
        log = res.value
        seq = self.seq

        def v(kind, msg):
            out.append(dict(kind=kind, msg=f"{msg}; program={self.name}; log={log}", fp=kind))

        qi = next(i for i, e in enumerate(log) if e[0] == "quiescent")
        outs = [(e[1], e[2], i) for i, e in enumerate(log) if e[0] == "out" and e[1] is not None]
        before_q = [o for o in outs if o[2] < qi]
        flat = []
        for r, _, _ in before_q:
            flat.extend(r if isinstance(r, tuple) else (r,))
        expected = [i for i, sym in enumerate(seq) if sym != "I"]
        if sorted(flat) != expected:
            miss = sorted(set(expected) - set(flat))
            dup = sorted({x for x in flat if flat.count(x) > 1})
            extra = sorted(set(flat) - set(expected))
            v("lost-or-duplicated", f"native events handed out {flat}; missing {miss} duplicated {dup} unexpected {extra}")
        if any(o[2] > qi for o in outs):
            v("late-output", "an event was handed out only after close()")
        # order: singles in kernel order, a pair at the position of one of its halves
        last = -1
        for r, _, _ in before_q:
            cands = sorted(r) if isinstance(r, tuple) else [r]
            nxt = [c for c in cands if c > last]
            if not nxt:
                v("order", f"results {[o[0] for o in before_q]} are not in kernel order")
                break
            last = nxt[0]
        # pairs must be real pairs
        for r, _, _ in before_q:
            if isinstance(r, tuple):
                a, b = r
                if not (0 <= a < len(seq) and 0 <= b < len(seq) and seq[a][0] == "F" and seq[b][0] == "T"
                        and seq[a][1] == seq[b][1]):
                    v("bad-pair", f"pair {r} is not a MOVED_FROM/MOVED_TO couple with one cookie")
        # timing
        ret_time = {}
        batch_of = {}
        p = 0
        for bi, n in enumerate(self.cut):
            for j in range(p, p + n):
                batch_of[j] = bi
            p += n
        next_read_after = {}
        cur_batch = None
        for e in log:
            if e[0] == "read_ret":
                ret_time[e[1]] = e[2]
                cur_batch = e[1]
            elif e[0] == "read_call" and cur_batch is not None:
                next_read_after.setdefault(cur_batch, e[1])
        alone = {r: t for r, t, _ in before_q if not isinstance(r, tuple)}
        for i, sym in enumerate(seq):
            if sym[0] == "F" and i in alone:
                t0 = ret_time.get(batch_of[i])
                if t0 is not None and alone[i] < t0 + D - 1e-9:
                    v("from-early", f"unmatched MOVED_FROM {i} handed out at {alone[i]} < read time {t0} + delay")
                # missed pairing
                ti = seq.index("T" + sym[1]) if "T" + sym[1] in seq else None
                if ti is not None and ti in alone:
                    done = next_read_after.get(batch_of[ti])
                    if done is not None and t0 is not None and done < t0 + D - 1e-9:
                        v("pairing-missed", f"MOVED_FROM {i} and MOVED_TO {ti} were both handed out alone although the "
                                            f"reader finished TO's batch at {done} < {t0} + delay")
        if not any(e[0] == "out" and e[1] is None for e in log) or not any(e[0] == "out2" and e[1] is None for e in log):
            v("no-end-marker", "read_event() did not return None after close()")
        return out


def cuts(n):
    for k in range(n):
        for pos in itertools.combinations(range(1, n), k):
            b = [0, *pos, n]
            yield tuple(b[i + 1] - b[i] for i in range(len(b) - 1))


def harnesses(tier):
    hs = []
    maxlen = 3 if tier == "quick" else 4
    for n in range(1, maxlen + 1):
        for seq in itertools.permutations(SYMS, n):
            if not valid(seq):
                continue
            if not any(x[0] in "FT" for x in seq) and n > 1:
                continue  # without a move half nothing is delayed or paired: keep only length 1
            for cut in cuts(n):
                gaps = (0.0,) if len(cut) == 1 else (0.0, D / 2, D, 1.5 * D)
                for g in gaps:
                    hs.append(BufHarness(seq, cut, g))
    return hs


def setup(tier):
    global D
    wd.load()
    dq = wd.mod("watchdog.utils.delayed_queue")
    ib = wd.mod("watchdog.observers.inotify_buffer")
    D = float(getattr(ib.InotifyBuffer, "delay", D))    # the pairing delay is the library's, not ours
    C = dq.DelayedQueue
    desc = vsched.instrument(line_modules=[ib, dq, wd.mod("watchdog.utils")], instr_functions=[(C, "get"), (C, "remove")],
                             exclude=("BaseThread.__init__", "BaseThread.stopped_event", "load_module", "load_class",
                                      "InotifyBuffer.__init__"))
    return harnesses(tier), desc


def run(ctx):
    hs, ctx.instrumented = setup(ctx.tier)
    q = ctx.tier == "quick"
    jobs = []
    for h in hs:
        n = len(h.seq)
        if q:
            b = 2 if (n == 1 or set(h.seq) == {"F1", "T1"}) else 1
        else:
            b = 3 if n <= 2 else (2 if n == 3 else 1)
        jobs.append((h, b))
    ctx.explore_many(jobs, cap=4_000_000 if q else 100_000_000)
