"""C10 - polling reports exactly the diff of successive snapshots and survives races.

The real PollingEmitter is driven at its narrowest seam over the in-memory VFS of checks/c09.py
(`PollingEmitter(queue, watch, timeout=0, stat=vfs.stat, listdir=vfs.listdir)`, `on_thread_start()`,
then `queue_events(0)` per poll, events read from the real EventQueue).

Part H: explicit-state BFS.  A state is (content of the emitter's previous snapshot + stopped flag +
queue state, current VFS tree); initial states = one freshly started emitter per tree of the universe;
a transition = 0, 1 or 2 VFS operations followed by one poll (plus 'the root vanishes').  Every
transition is executed on a fresh real emitter by replaying the history that reaches the state, the
events of the last poll are compared with the C09 reference diff (old tree -> new tree) rendered as
events.  States are merged on the measured key, the search stops at a depth bound or at closure.

Part I: for every tree, one walk with a failure injected at every single stat/listdir call position
(ENOENT, ENOTDIR, EACCES), directly on DirectorySnapshot and through the emitter.
"""

from __future__ import annotations

import errno
import queue as realqueue

from checks import c09
from checks.c09 import NAMES, ROOT, VFS, Prep, tree_from_json, tree_json
from wdmc import wd

LEVEL = "model_checking"
RULE = (
    "universe: trees over {R, R/a, R/b, R/a/a, R/a/b} with <= n non-root entries (quick n=3, inode pool 3; thorough n=4, "
    "pool 4), kind file/dir, mtime in {0,1} (root too), size fixed 0, device 0. Part H: BFS, initial states = a started "
    "emitter for EVERY tree, successors of a state = every tree reachable by 0, 1 or 2 operations out of {create "
    "file/dir at a free path with any free inode and mtime 0/1, delete entry with subtree, rename onto a free path or "
    "over a same-kind entry (empty dir), flip mtime of an entry or the root} inside the universe, plus 'root vanishes' "
    "(and, from a stopped emitter: nothing / root back); one poll per transition, depth bound 3 polls quick / 4 "
    "thorough, the search normally ends earlier because no new state appears (closed => all poll sequences of any "
    "length inside the universe are covered); state key = (paths + inode/kind/mtime/size of the emitter's previous snapshot, running flag, queue "
    "size, VFS tree); recursive and non-recursive watch. Part I: every tree x every call position of its fault-free "
    "walk x {ENOENT, ENOTDIR, EACCES} x recursive/non-recursive, on DirectorySnapshot directly and through the emitter "
    "(faulty poll, then a fault-free poll). A transition/fault case is non-trivial when the reference diff is non-empty"
)
ASSUMPTIONS = [
    "size is fixed to 0 and only mtime varies (the mtime/size disjunction of 'modified' is covered by C09)",
    "only the stat/listdir route (PollingObserverVFS) is driven; the default os.stat/os.scandir route over a real "
    "scratch tree and the polling interval (virtual clock) are not part of this module",
    "a rename of a non-empty directory is not in the operation alphabet (its children would leave the path universe); "
    "it is reachable as a pair of trees only through C09",
    "the oracle for one poll is the C09 reference diff with the same tolerances (modified may name old or new path of a "
    "moved entry; kind-changing identity in either list)",
    "a fault is injected at exactly one call of one walk (transient); a failing listdir of the root may be answered "
    "either as 'root gone' or as 'root present, empty'",
    "a history is not extended beyond its first disagreement with the reference",
]

ERRNOS = (errno.ENOENT, errno.ENOTDIR, errno.EACCES)
GONE = ()    # the VFS tree after the root vanished


# ------------------------------------------------------------------------------------------------
# universe and operations
# ------------------------------------------------------------------------------------------------
def canon(entries):
    return tuple(sorted(entries))


def universe(nmax, pool):
    return [canon(t) for t in c09.gen_trees(nmax, pool, attrs=((0, 0), (1, 0)), root_mtimes=(0, 1))]


def one_op(tree, nmax, pool):
    """All (op, tree') for one operation on `tree`, staying inside the universe."""
    m = {e[0]: e for e in tree}
    used = {e[1] for e in tree if e[0] != ROOT}
    out = []
    for p, e in m.items():
        m2 = dict(m)
        m2[p] = (p, e[1], e[2], e[3], 1 - e[4], e[5])
        out.append((("touch", p), canon(m2.values())))
    if len(m) - 1 < nmax:
        for name in NAMES:
            p = ROOT + "/" + name
            parent = p.rpartition("/")[0]
            if p in m or parent not in m or m[parent][3] != "d":
                continue
            for ino in range(1, pool + 1):
                if ino in used:
                    continue
                for kind in "fd":
                    for mt in (0, 1):
                        m2 = dict(m)
                        m2[p] = (p, ino, 0, kind, mt, 0)
                        out.append((("create", p, kind, ino, mt), canon(m2.values())))
    for p in m:
        if p == ROOT:
            continue
        m2 = {q: e for q, e in m.items() if q != p and not q.startswith(p + "/")}
        out.append((("delete", p), canon(m2.values())))
    for src, e in m.items():
        if src == ROOT or any(q.startswith(src + "/") for q in m):
            continue
        for name in NAMES:
            dst = ROOT + "/" + name
            parent = dst.rpartition("/")[0]
            if dst == src or parent == src or parent not in m or m[parent][3] != "d":
                continue
            if dst in m:
                if m[dst][3] != e[3] or any(q.startswith(dst + "/") for q in m):
                    continue
            m2 = {q: x for q, x in m.items() if q not in (src, dst)}
            m2[dst] = (dst, e[1], e[2], e[3], e[4], e[5])
            out.append((("rename", src, dst), canon(m2.values())))
    return out


def successors(tree, nmax, pool):
    """dict tree' -> shortest op sequence, for 0, 1, 2 operations; number of op sequences."""
    succ = {tree: ()}
    nseq = 1
    first = one_op(tree, nmax, pool)
    for op, t1 in first:
        nseq += 1
        succ.setdefault(t1, (op,))
    for op, t1 in first:
        for op2, t2 in one_op(t1, nmax, pool):
            nseq += 1
            succ.setdefault(t2, (op, op2))
    return succ, nseq


# ------------------------------------------------------------------------------------------------
# driving the emitter
# ------------------------------------------------------------------------------------------------
_VIEWS = {}


def view(tree, recursive):
    k = (tree, recursive)
    v = _VIEWS.get(k)
    if v is None:
        if len(_VIEWS) > 200000:
            _VIEWS.clear()
        v = _VIEWS[k] = Prep(tree, recursive, snap=False)
    return v


class Rig:
    def __init__(self, tree, recursive):
        api = wd.mod("watchdog.observers.api")
        pol = wd.mod("watchdog.observers.polling")
        self.vfs = VFS(tree)
        self.q = api.EventQueue()
        self.watch = api.ObservedWatch(ROOT, recursive=recursive)
        self.em = pol.PollingEmitter(self.q, self.watch, timeout=0, stat=self.vfs.stat, listdir=self.vfs.listdir)
        self.recursive = recursive

    def drain(self):
        out = []
        while True:
            try:
                out.append(self.q.get_nowait())
            except realqueue.Empty:
                return out

    def start(self):
        self.em.on_thread_start()
        return self.drain()

    def poll(self):
        self.em.queue_events(0)
        return self.drain()

    def key(self):
        s = self.em._snapshot
        try:
            content = tuple(sorted((p, s.inode(p), s.isdir(p), s.mtime(p), s.size(p), s.path(s.inode(p)))
                                   for p in s.paths))
        except Exception as e:  # noqa: BLE001
            content = ("unreadable snapshot", type(e).__name__)
        return (content, self.em.should_keep_running(), self.q.qsize())


def render(items, watch):
    """Queue items of one poll -> the eight lists + structural problems."""
    ev = wd.mod("watchdog.events")
    table = {
        ev.FileCreatedEvent: ("files_created", False), ev.FileDeletedEvent: ("files_deleted", False),
        ev.FileModifiedEvent: ("files_modified", False), ev.FileMovedEvent: ("files_moved", False),
        ev.DirCreatedEvent: ("dirs_created", True), ev.DirDeletedEvent: ("dirs_deleted", True),
        ev.DirModifiedEvent: ("dirs_modified", True), ev.DirMovedEvent: ("dirs_moved", True),
    }
    L = {k: [] for k in c09.LISTS}
    probs = []
    pos = {}
    for i, item in enumerate(items):
        if not (isinstance(item, tuple) and len(item) == 2):
            probs.append(("event-shape", f"queue item {item!r} is not an (event, watch) pair"))
            continue
        e, w = item
        if w is not watch:
            probs.append(("event-shape", f"event {e!r} is queued for watch {w!r}, not the emitter's watch"))
        ent = table.get(type(e))
        if ent is None:
            probs.append(("event-shape", f"unexpected event class {type(e).__name__}: {e!r}"))
            continue
        name, isdir = ent
        if e.is_directory != isdir or e.is_synthetic:
            probs.append(("event-shape", f"{e!r}: is_directory/is_synthetic do not fit the class"))
        if name.endswith("moved"):
            L[name].append((e.src_path, e.dest_path))
        else:
            if e.dest_path != "":
                probs.append(("event-shape", f"{e!r} has a dest_path"))
            L[name].append(e.src_path)
        pos.setdefault(name, []).append(i)
    for kind in ("files", "dirs"):
        d, c = pos.get(kind + "_deleted"), pos.get(kind + "_created")
        if d and c and max(d) > min(c):
            probs.append(("order", f"a {kind[:-1]} creation is queued before a {kind[:-1]} deletion: "
                                   f"{[repr(x[0]) for x in items]}"))
    return L, probs


def check_poll(rig, items, old, new):
    """Oracle for one poll from tree `old` (previous snapshot) to tree `new` (both non-GONE)."""
    L, probs = render(items, rig.watch)
    A, B = view(old, rig.recursive), view(new, rig.recursive)
    ref = c09.reference(A, B)
    probs += c09.compare(A, B, L, ref)
    if old == new and items:
        probs.append(("spurious", f"nothing changed but {[repr(x[0]) for x in items]} were queued"))
    if not rig.em.should_keep_running():
        probs.append(("stopped", "the emitter stopped although the root is present"))
    return probs, ref


def check_gone(rig, items):
    ev = wd.mod("watchdog.events")
    probs = []
    got = [x[0] for x in items if isinstance(x, tuple)]
    if len(items) != 1 or type(got[0]) is not ev.DirDeletedEvent or got[0].src_path != ROOT or items[0][1] is not rig.watch:
        probs.append(("root-gone", f"root vanished: expected exactly [DirDeletedEvent({ROOT})], got {[repr(x) for x in got]}"))
    if rig.em.should_keep_running():
        probs.append(("root-gone", "root vanished but the emitter keeps running"))
    return probs


def run_history(hist, recursive):
    """Replay hist = (T0, T1, ..., Tk) on a fresh emitter; oracle on the last step only.

    Returns (problems, key, nontrivial, signature)."""
    rig = Rig(hist[0], recursive)
    probs = []
    sig = None
    try:
        items = rig.start()
        if len(hist) == 1 and items:
            probs.append(("baseline", f"on_thread_start queued {[repr(x[0]) for x in items]}"))
        stopped = False
        for i in range(1, len(hist)):
            old, new = hist[i - 1], hist[i]
            rig.vfs.set_tree(new)
            items = rig.poll()
            last = i == len(hist) - 1
            if stopped:
                if last and (items or rig.em.should_keep_running()):
                    probs.append(("after-stop", f"a stopped emitter queued {[repr(x[0]) for x in items]} / "
                                                f"running={rig.em.should_keep_running()}"))
            elif new == GONE:
                stopped = True
                if last:
                    probs += check_gone(rig, items)
                    sig = "root-gone"
            elif last:
                p, ref = check_poll(rig, items, old, new)
                probs += p
                sig = c09.signature(ref)
                if not any(sig):
                    sig = None
    except Exception as e:  # noqa: BLE001
        probs.append(("exception", f"{type(e).__name__}: {e} escaped the emitter"))
        return probs, ("exception",), False, None
    return probs, (rig.key(), hist[-1]), sig is not None, sig


# ------------------------------------------------------------------------------------------------
# part H: BFS
# ------------------------------------------------------------------------------------------------
_G = {}


class Acc:
    def __init__(self):
        self.evals = 0
        self.nontrivial = 0
        self.opseqs = 0
        self.sigs = set()
        self.bad = {}
        self.nbad = 0
        self.new = {}

    def problem(self, clause, msg, sizekey, case, cls):
        self.nbad += 1
        old = self.bad.get(clause)
        if old is None or sizekey < old[0]:
            self.bad[clause] = (sizekey, case, msg, cls)

    def merge(self, o):
        self.evals += o.evals
        self.nontrivial += o.nontrivial
        self.opseqs += o.opseqs
        self.sigs |= o.sigs
        self.nbad += o.nbad
        for c, v in o.bad.items():
            if c not in self.bad or v[0] < self.bad[c][0]:
                self.bad[c] = v


def size_of(hist):
    return (len(hist), sum(len(t) for t in hist))


def h_case(hist, recursive):
    return dict(part="H", recursive=recursive, history=[tree_json(t) for t in hist])


def _step_class(hist, recursive):
    if len(hist) < 2:
        return "baseline"
    old, new = hist[-2], hist[-1]
    if new == GONE:
        return "root-gone"
    if old == GONE:
        return "after-stop"
    return c09.case_class(c09.reference(view(old, recursive), view(new, recursive)))


def _succ_of(hist, nmax, pool):
    cur = hist[-1]
    if GONE in hist:
        # stopped emitter: the root stays away / comes back (the last tree in which it existed)
        prev = next(t for t in reversed(hist) if t != GONE)
        return {GONE: (("root-absent",),), prev: (("root-present",),)}, 2
    succ, nseq = successors(cur, nmax, pool)
    succ[GONE] = (("root-vanishes",),)
    return succ, nseq + 1


def _job_bfs(args):
    k, m, recursive, nmax, pool = args
    frontier, seen = _G["frontier"], _G["seen"]
    acc = Acc()
    for i in range(k, len(frontier), m):
        hist = frontier[i]
        succ, nseq = _succ_of(hist, nmax, pool)
        acc.opseqs += nseq
        for t2 in succ:
            h2 = hist + (t2,)
            probs, key, nontrivial, sig = run_history(h2, recursive)
            acc.evals += 1
            if nontrivial:
                acc.nontrivial += 1
                acc.sigs.add(sig)
            if probs:
                # first disagreement only (the later clauses of the same poll are consequences of it)
                clause, msg = probs[0]
                acc.problem(clause, f"{msg}; operations before the last poll: {succ[t2]}", size_of(h2),
                            h_case(h2, recursive), _step_class(h2, recursive))
                continue
            if key not in seen and key not in acc.new:
                acc.new[key] = h2
    return acc


def bfs(ctx, trees, recursive, nmax, pool, max_polls):
    import multiprocessing

    mp = multiprocessing.get_context("fork")
    total = Acc()
    seen = set()
    frontier = []
    for t in trees:
        probs, key, _, _ = run_history((t,), recursive)
        total.evals += 1
        for clause, msg in probs:
            total.problem(clause, msg, size_of((t,)), h_case((t,), recursive), "baseline")
        if key not in seen:
            seen.add(key)
            frontier.append((t,))
    states = len(seen)
    transitions = 0
    depth = 0
    sample = None
    truncated = False
    while frontier and depth < max_polls:
        depth += 1
        _G["frontier"], _G["seen"] = frontier, seen
        M = max(1, min(len(frontier), ctx.workers * 8))
        nxt = []
        with mp.Pool(ctx.workers) as pool_:
            for acc in pool_.imap(_job_bfs, [(k, M, recursive, nmax, pool) for k in range(M)]):
                transitions += acc.evals
                total.merge(acc)
                for key, h2 in acc.new.items():
                    if key not in seen:
                        seen.add(key)
                        nxt.append(h2)
        states = len(seen)
        frontier = nxt
        if total.nbad:
            break       # disagreement at this depth: report it, do not search below broken behaviour
        if len(frontier) > 3 * len(trees):
            # only misbehaving code produces that many new states (a correct emitter's state is its last tree)
            frontier = frontier[:3 * len(trees)]
            truncated = True
    closed = not frontier and not truncated
    for h in (trees[len(trees) // 2],):
        succ, _ = successors(h, nmax, pool)
        t2 = max(succ, key=lambda t: (len(succ[t]), t))
        rig = Rig(h, recursive)
        rig.start()
        rig.vfs.set_tree(t2)
        sample = dict(baseline=tree_json(h), operations=[list(o) for o in succ[t2]], new_tree=tree_json(t2),
                      events=[repr(x[0]) for x in rig.poll()])
    name = f"H: BFS over (previous snapshot, VFS tree), {'recursive' if recursive else 'non-recursive'} watch"
    _violations(ctx, total, "H", name)
    ctx.add_enum(name, total.evals, total.nontrivial, samples=[sample], states=states, transitions=transitions,
                 exhaustive=closed,
                 extra=dict(initial_states=len(trees), states=states, depth_reached=depth, max_polls=max_polls,
                            closed=closed, frontier_truncated=truncated, operation_sequences=total.opseqs, distinct_signatures=len(total.sigs),
                            failing_evaluations=total.nbad))


def _violations(ctx, acc, part, name):
    for clause, (key, case, msg, cls) in sorted(acc.bad.items()):
        if part == "I":
            fp = f"walk-fault {clause}"
        else:
            rec = "recursive" if case["recursive"] else "non-recursive"
            fp = f"C10 H {clause} [{rec}; smallest failing case: poll {len(case['history']) - 1}, {cls}]"
        ctx.add_violation(dict(kind=clause, fp=fp, msg=f"{msg}\n case: {case}\n (part {name})", prefix=[],
                               harness="enum", case=case))


# ------------------------------------------------------------------------------------------------
# part I: fault at every call position
# ------------------------------------------------------------------------------------------------
def call_class(op, path):
    depth = path.count("/") - 1
    return f"{op}({('root', 'root-child', 'grandchild')[min(depth, 2)]})"


def reduced(tree, op, path):
    """The tree as the walk must see it when `op(path)` fails (path != root)."""
    if op == "stat":
        return tuple(e for e in tree if e[0] != path and not e[0].startswith(path + "/"))
    return tuple(e for e in tree if not e[0].startswith(path + "/"))


def fault_cases(tree, recursive):
    """All (k, errno) cases of one tree. Returns [(clause, msg, case)], evaluations, nontrivial."""
    ds = wd.mod("watchdog.utils.dirsnapshot")
    errname = errno.errorcode
    v0 = VFS(tree)
    base = ds.DirectorySnapshot(ROOT, recursive=recursive, stat=v0.stat, listdir=v0.listdir)
    calls = list(v0.log)
    out = []
    evals = nontrivial = 0
    full_view = view(tree, recursive)
    if base.paths != set(full_view.view):
        out.append(("fault-free walk wrong-content", f"paths {sorted(base.paths)} != {sorted(full_view.view)}",
                    dict(part="I", recursive=recursive, tree=tree_json(tree), k=None, errno=None)))
    for k, (op, path) in enumerate(calls):
        for en in ERRNOS:
            cls = f"errno={errname[en]} call={call_class(op, path)}"
            case = dict(part="I", recursive=recursive, tree=tree_json(tree), k=k, errno=errname[en], call=[op, path])
            where = f"fault {errname[en]} at call #{k} {op}({path}) of the walk {calls}"
            # ---- directly on DirectorySnapshot --------------------------------------------------------
            evals += 1
            n_before = len(out)
            v = VFS(tree, fault=(k, en))
            snap = exc = None
            try:
                snap = ds.DirectorySnapshot(ROOT, recursive=recursive, stat=v.stat, listdir=v.listdir)
            except BaseException as e:  # noqa: BLE001
                exc = e
            root_only = ((ROOT,) + tree[0][1:],)
            if path == ROOT and op == "stat":
                exp_trees = None
                if not isinstance(exc, OSError):
                    out.append((f"root-stat-not-raised {cls}", f"{where}: expected OSError, got {exc!r} / a snapshot", case))
            elif path == ROOT:
                exp_trees = root_only
                if exc is not None and not isinstance(exc, OSError):
                    out.append((f"raises {cls}", f"{where}: {type(exc).__name__}: {exc}", case))
                elif exc is None:
                    m = _content(snap, v, root_only, recursive)
                    if m:
                        out.append((f"wrong-content {cls}", f"{where}: {m}", case))
            else:
                exp_trees = reduced(tree, op, path)
                nontrivial += 1
                if exc is not None:
                    out.append((f"raises {cls}", f"{where}: DirectorySnapshot raised {type(exc).__name__}: {exc}; the entry "
                                                 f"must be treated as absent", case))
                else:
                    m = _content(snap, v, exp_trees, recursive)
                    if m:
                        out.append((f"wrong-content {cls}", f"{where}: {m}", case))
            # ---- through the emitter ----------------------------------------------------------------------
            direct_failed = len(out) > n_before
            evals += 1
            rig = Rig(tree, recursive)
            try:
                rig.start()
                rig.vfs.log = []
                rig.vfs.fault = (k, en)
                items = rig.poll()
                rig.vfs.fault = None
                gone = len(items) == 1 and not rig.em.should_keep_running()
                if exp_trees is None or (path == ROOT and gone):
                    probs = check_gone(rig, items)
                    items2 = rig.poll()
                    if items2 or rig.em.should_keep_running():
                        probs.append(("after-stop", f"after the stop a later poll queued {[repr(x[0]) for x in items2]}"))
                else:
                    probs, _ = check_poll(rig, items, tree, exp_trees)
                    if not probs:
                        items2 = rig.poll()
                        probs, _ = check_poll(rig, items2, exp_trees, tree)
                        probs = [(c + " (recovery poll)", m) for c, m in probs]
                if probs and not direct_failed:
                    # one report per case; the clause of the first disagreement goes into the message only
                    c, m = probs[0]
                    out.append((f"via emitter wrong-events {cls}", f"{where}: [{c}] {m}", case))
            except Exception as e:  # noqa: BLE001
                out.append((f"via emitter raises {cls}", f"{where}: {type(e).__name__}: {e} escaped queue_events", case))
    return out, evals, nontrivial, len(calls)


def _content(snap, vfs, exp_tree, recursive):
    ev = view(exp_tree, recursive)
    if snap.paths != set(ev.view):
        return f"snapshot paths {sorted(snap.paths)}, expected {sorted(ev.view)} (failed entry absent, everything else present)"
    for p in ev.view:
        if snap.stat_info(p) is not vfs.st[p]:
            return f"stat_info({p}) is not the object the stat function returned"
    return c09.snapshot_content_problem(Prep(exp_tree, recursive, snap=snap))


def _job_fault(args):
    k, m, recursive = args
    trees = _G["trees"]
    acc = Acc()
    for i in range(k, len(trees), m):
        out, evals, nontrivial, ncalls = fault_cases(trees[i], recursive)
        acc.evals += evals
        acc.nontrivial += nontrivial
        acc.opseqs += ncalls
        for clause, msg, case in out:
            acc.problem(clause, msg, (len(trees[i]), case["k"] or 0), case, "")
    return acc


def faults(ctx, trees):
    import multiprocessing

    mp = multiprocessing.get_context("fork")
    _G["trees"] = trees
    for recursive in (True, False):
        total = Acc()
        M = ctx.workers * 8
        with mp.Pool(ctx.workers) as pool_:
            for acc in pool_.imap(_job_fault, [(k, M, recursive) for k in range(M)]):
                total.merge(acc)
        name = f"I: fault at every call position x errno, {'recursive' if recursive else 'non-recursive'}"
        _violations(ctx, total, "I", name)
        t = trees[-1]
        v = VFS(t)
        wd.mod("watchdog.utils.dirsnapshot").DirectorySnapshot(ROOT, recursive=recursive, stat=v.stat, listdir=v.listdir)
        ctx.add_enum(name, total.evals, total.nontrivial,
                     samples=[dict(tree=tree_json(t), walk=[list(c) for c in v.log], faults="each position x ENOENT/ENOTDIR/EACCES")],
                     extra=dict(trees=len(trees), call_positions=total.opseqs, failing_evaluations=total.nbad))


# ------------------------------------------------------------------------------------------------
def setup(tier):
    wd.load()
    return [], None


def run(ctx):
    wd.load()
    quick = ctx.tier == "quick"
    nmax, pool, polls = (3, 3, 3) if quick else (4, 4, 4)
    trees = universe(nmax, pool)
    for recursive in (True, False):
        bfs(ctx, trees, recursive, nmax, pool, polls)
    faults(ctx, trees)


def replay(rec):
    wd.load()
    case = rec["case"]
    bad = []
    if case["part"] == "H":
        hist = tuple(canon(tree_from_json(t)) for t in case["history"])
        print("history of VFS trees (baseline first):")
        for t in hist:
            print("  ", t)
        for i in range(1, len(hist) + 1):
            probs, key, _, _ = run_history(hist[:i], case["recursive"])
            for c, m in probs:
                print(f"VERDICT (after poll {i - 1}): {c} - {m}")
            bad += probs
    else:
        tree = canon(tree_from_json(case["tree"]))
        out, _, _, _ = fault_cases(tree, case["recursive"])
        print("tree:", tree, "recursive:", case["recursive"])
        for c, m, cs in out:
            if case["k"] is None or (cs["k"] == case["k"] and cs["errno"] == case["errno"]):
                print(f"VERDICT: walk-fault {c} - {m}")
                bad.append((c, m))
    if bad:
        print("VIOLATION property=C10 replay=(case above)")
        return 1
    print("the recorded violation does not reproduce on this tree")
    return 0
