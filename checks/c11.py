"""C11 - an event filter only removes events; it never alters the rest of the stream."""

from __future__ import annotations

import itertools

from wdmc import fsops, wd

LEVEL = "model_checking"
RULE = ("for every filter (each concrete event class, each base class; thorough: all pairs) two watches on the same root "
        "in one real InotifyObserver - one unfiltered, one filtered - see the same real operation history (BFS over "
        "pacing-respecting bursts from small initial trees, recursive and non-recursive, normal and full emitter); "
        "oracle: the filtered handler's sequence equals the unfiltered sequence projected onto instances of the filter's "
        "classes, after collapsing runs of identical adjacent events")
ASSUMPTIONS = [
    "real Linux inotify of this kernel as environment, serialised by the scheduler",
    "the two watches have separate emitters and inotify instances; both streams are produced by the same real operations",
]

CONCRETE = ["FileCreatedEvent", "DirCreatedEvent", "FileDeletedEvent", "DirDeletedEvent", "FileModifiedEvent",
            "DirModifiedEvent", "FileMovedEvent", "DirMovedEvent", "FileOpenedEvent", "FileClosedEvent",
            "FileClosedNoWriteEvent"]
BASE = ["FileSystemEvent", "FileSystemMovedEvent"]


def setup(tier):
    wd.load()
    return [], None


CHECKS = [fsops.check_filter]


def run(ctx):
    q = ctx.tier == "quick"
    singles = [[c] for c in CONCRETE + BASE]
    C = lambda f, **kw: fsops.Config(second_filter=f, probes=True, outside_ops=False, **kw)
    fsops.graph_search(ctx, [C(f) for f in singles], fsops.small_trees(2 if q else 3), CHECKS, burst_len=1, depth=1 if q else 2,
                       respect_pacing=True, cap=150000 if q else 1500000, label="single-filters-rec", classify=None)
    fsops.graph_search(ctx, [C(f, recursive=False) for f in singles] + [C(f, full=True) for f in singles],
                       fsops.small_trees(1 if q else 2), CHECKS, burst_len=1, depth=1, respect_pacing=True,
                       cap=100000 if q else 1000000, label="single-filters-flat-full", classify=None)
    fsops.graph_search(ctx, [C(f) for f in singles], fsops.small_trees(1), CHECKS, burst_len=2, depth=1,
                       respect_pacing=True, cap=100000 if q else 1000000, label="single-filters-bursts", classify=None)
    # state shared between emitters: a non-recursive watch with the same filter is started first (another directory)
    narrow = [["FileModifiedEvent"], ["FileClosedEvent"], ["FileClosedNoWriteEvent"], ["FileOpenedEvent"], ["FileDeletedEvent"]]
    fsops.graph_search(ctx, [C(f, prior_flat=True) for f in narrow], fsops.small_trees(0 if q else 1), CHECKS, burst_len=1,
                       depth=2, respect_pacing=True, cap=60000 if q else 400000, label="prior-flat-watch-same-filter",
                       classify=None)
    if not q:
        pairs = [list(p) for p in itertools.combinations(CONCRETE, 2)]
        fsops.graph_search(ctx, [C(f) for f in pairs], fsops.small_trees(2), CHECKS, burst_len=1, depth=1,
                           respect_pacing=True, cap=600000, label="pair-filters-rec", classify=None)


def replay(rec):
    return fsops.replay_record(rec, CHECKS)
