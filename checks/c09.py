"""C09 - a snapshot diff is a correct, minimal, inode-faithful description of the change.

Pure input enumeration: every tree of a bounded universe is turned into a real DirectorySnapshot through
the injectable stat/listdir (in-memory VFS below), every ordered pair of snapshots is handed to the real
DirectorySnapshotDiff and the eight public lists are compared with an independent spec-level reference
(written from the property statement, identity = (inode, device)) and with the algebraic laws of the
statement (path-set reconstruction, consistency/disjointness, no duplicates, self diff, argument swap,
ignore_device).

The helpers of this module (VFS, tree enumeration, reference, list comparison) are also used by C10.
"""

from __future__ import annotations

import errno
import itertools
import stat as statmod

from wdmc import wd

LEVEL = "exploration"
RULE = (
    "trees over paths {R, R/a, R/b, R/a/a, R/a/b} (R always a directory with its own inode 100; a child only under "
    "a directory), kind file/dir per entry, injective inode assignment from a pool, mtime in {0,1}, size in {0,1}; "
    "part A: ALL ordered pairs of trees with <= nA entries, full kind x inode x mtime x size product on both sides "
    "(quick nA=2 with root mtime in {0,1}; thorough additionally nA=3, pool 3); part B: ALL ordered pairs (s,t),(t,s) "
    "with s = any tree with <= nB entries whose entries all have mtime=size=0 and t = any tree with <= nB entries "
    "with the full mtime x size product (quick nB=3 pool 3; thorough nB=4 pool 4), pairs already in part A skipped; "
    "part N: non-recursive snapshots of every tree, ALL ordered pairs of the distinct snapshot contents; part S: "
    "diff(s,s) for every tree; part D: every tree x every per-entry device vector in {0,1}^(n+1) (ignore_device law and "
    "reference with device as part of the identity). A case is one ordered pair of snapshots; it is non-trivial when "
    "the reference diff is non-empty; distinct classes = distinct reference signatures (counts per list + kind change)"
)
ASSUMPTIONS = [
    "every inode is at exactly one path within a tree (precondition of the statement); inodes may be reused across "
    "the two trees of a pair in every possible way",
    "for an entry that moved and changed mtime/size the modified list may name the old path (what the upstream test "
    "pins) or the new path",
    "for an identity whose kind (file/dir) differs between the two snapshots the moved/modified entry may be in the "
    "file list or in the directory list (the statement does not define it); created/deleted entries are classified by "
    "the kind in the snapshot that contains them",
    "the same path may be both deleted and created when the identity at that path changed; disjointness is required "
    "between created paths and move destinations, deleted paths and move sources, and among move sources/destinations",
    "the full mtime x size product on BOTH sides is enumerated for trees with <= 2 (quick) / <= 3 (thorough) entries; "
    "for the largest trees one side of the pair has mtime=size=0 everywhere (both argument orders are evaluated)",
    "no random larger trees (the quantifier's 'plus random larger trees' is outside this family of checks)",
]

ROOT = "/R"
ROOT_INO = 100
NAMES = ("a", "b", "a/a", "a/b")
ATTRS_FULL = ((0, 0), (1, 0), (0, 1), (1, 1))


# ------------------------------------------------------------------------------------------------
# in-memory VFS
# ------------------------------------------------------------------------------------------------
class Stat:
    __slots__ = ("st_ino", "st_dev", "st_mode", "st_mtime", "st_size")

    def __init__(self, ino, dev, kind, mtime, size):
        self.st_ino = ino
        self.st_dev = dev
        self.st_mode = (statmod.S_IFDIR | 0o755) if kind == "d" else (statmod.S_IFREG | 0o644)
        self.st_mtime = mtime
        self.st_size = size

    def __repr__(self):
        return f"Stat(ino={self.st_ino}, dev={self.st_dev}, mode={self.st_mode:o}, mtime={self.st_mtime}, size={self.st_size})"


class Entry:
    __slots__ = ("name",)

    def __init__(self, name):
        self.name = name


class VFS:
    """tree = tuple of (path, ino, dev, kind 'd'|'f', mtime, size), root first.

    `fault=(k, errno)` makes the k-th call (0-based, stat and listdir counted together) raise
    OSError(errno); `log` records the calls as (op, path).
    """

    def __init__(self, tree=(), fault=None):
        self.fault = fault
        self.log = []
        self.set_tree(tree)

    def set_tree(self, tree):
        self.st = {}
        self.children = {}
        for p, ino, dev, kind, mtime, size in tree:
            self.st[p] = Stat(ino, dev, kind, mtime, size)
            if kind == "d":
                self.children.setdefault(p, [])
        for p in sorted(self.st):
            if p != ROOT:
                parent, _, name = p.rpartition("/")
                self.children[parent].append(name)

    def _call(self, op, path):
        k = len(self.log)
        self.log.append((op, path))
        if self.fault is not None and self.fault[0] == k:
            raise OSError(self.fault[1], "injected fault", path)

    def stat(self, path):
        self._call("stat", path)
        try:
            return self.st[path]
        except KeyError:
            raise OSError(errno.ENOENT, "no such file or directory", path) from None

    def listdir(self, path):
        self._call("listdir", path)
        st = self.st.get(path)
        if st is None:
            raise OSError(errno.ENOENT, "no such file or directory", path)
        if not statmod.S_ISDIR(st.st_mode):
            raise OSError(errno.ENOTDIR, "not a directory", path)
        return [Entry(n) for n in self.children[path]]


# ------------------------------------------------------------------------------------------------
# tree universe
# ------------------------------------------------------------------------------------------------
def shapes(n):
    out = []
    for comb in itertools.combinations(NAMES, n):
        if all("/" not in p or p.split("/")[0] in comb for p in comb):
            out.append(comb)
    return out


def gen_trees(nmax, pool, attrs=ATTRS_FULL, root_mtimes=(0,), nmin=0):
    """All trees with nmin..nmax non-root entries, smallest first, in a fixed order."""
    out = []
    for n in range(nmin, nmax + 1):
        for shape in shapes(n):
            kind_choices = [("d",) if any(q.startswith(p + "/") for q in shape) else ("f", "d") for p in shape]
            for kinds in itertools.product(*kind_choices):
                for inos in itertools.permutations(range(1, pool + 1), n):
                    for at in itertools.product(attrs, repeat=n):
                        for rm in root_mtimes:
                            out.append(((ROOT, ROOT_INO, 0, "d", rm, 0),) + tuple(
                                (ROOT + "/" + p, i, 0, k, a[0], a[1]) for p, i, k, a in zip(shape, inos, kinds, at)))
    return out


def tree_json(tree):
    return [list(e) for e in tree]


def tree_from_json(j):
    return tuple(tuple(e) for e in j)


def visible(tree, recursive):
    if recursive:
        return tree
    return tuple(e for e in tree if e[0].count("/") <= 2)


class Prep:
    """A tree with its real snapshot and the reference's view of it."""

    __slots__ = ("tree", "view", "ids", "paths", "snap", "n", "small")

    def __init__(self, tree, recursive=True, snap=None):
        ds = wd.mod("watchdog.utils.dirsnapshot")
        self.tree = tree
        self.n = len(tree) - 1
        self.view = {}
        self.ids = {}
        for p, ino, dev, kind, mtime, size in visible(tree, recursive):
            self.view[p] = ((ino, dev), kind == "d", mtime, size)
            self.ids[(ino, dev)] = p
        self.paths = frozenset(self.view)
        if snap is None:
            v = VFS(tree)
            snap = ds.DirectorySnapshot(ROOT, recursive=recursive, stat=v.stat, listdir=v.listdir)
        self.snap = snap
        self.small = False


def snapshot_content_problem(P):
    """The snapshot must contain exactly the view (this validates the reference's input, not the diff)."""
    s = P.snap
    if s.paths != set(P.view):
        return f"snapshot paths {sorted(s.paths)} != reachable entries {sorted(P.view)}"
    for p, (ident, isdir, mtime, size) in P.view.items():
        if s.inode(p) != ident or s.isdir(p) != isdir or s.mtime(p) != mtime or s.size(p) != size or s.path(ident) != p:
            return f"snapshot data of {p}: inode={s.inode(p)} isdir={s.isdir(p)} mtime={s.mtime(p)} size={s.size(p)} " \
                   f"path(inode)={s.path(ident)}; the tree says {ident} {isdir} {mtime} {size}"
    return None


# ------------------------------------------------------------------------------------------------
# reference + comparison
# ------------------------------------------------------------------------------------------------
LISTS = ("files_created", "files_deleted", "files_modified", "files_moved",
         "dirs_created", "dirs_deleted", "dirs_modified", "dirs_moved")


def lists_of(diff):
    return {k: list(getattr(diff, k)) for k in LISTS}


def reference(A, B):
    """Spec-level diff of two views: identity = (inode, device)."""
    va, vb, ia, ib = A.view, B.view, A.ids, B.ids
    cf, cd, df, dd = set(), set(), set(), set()
    moved, modsame, modmoved = [], [], []
    for ident, q in ib.items():
        if ident not in ia:
            (cd if vb[q][1] else cf).add(q)
    for ident, p in ia.items():
        q = ib.get(ident)
        if q is None:
            (dd if va[p][1] else df).add(p)
            continue
        ea, eb = va[p], vb[q]
        changed = ea[2] != eb[2] or ea[3] != eb[3]
        if p != q:
            moved.append((p, q, ea[1], eb[1]))
            if changed:
                modmoved.append((p, q, ea[1], eb[1]))
        elif changed:
            modsame.append((p, ea[1], eb[1]))
    return cf, cd, df, dd, moved, modsame, modmoved


def signature(ref):
    cf, cd, df, dd, moved, modsame, modmoved = ref
    kc = any(m[2] != m[3] for m in moved) or any(m[1] != m[2] for m in modsame)
    return (len(cf), len(cd), len(df), len(dd), sum(1 for m in moved if not m[2]), sum(1 for m in moved if m[2]),
            len(modsame), len(modmoved), kc, bool((cf | cd) & (df | dd)))


def case_class(ref):
    cf, cd, df, dd, moved, modsame, modmoved = ref
    parts = []
    if cf or cd:
        parts.append("created")
    if df or dd:
        parts.append("deleted")
    if (cf | cd) & (df | dd):
        parts.append("replaced-in-place")
    if moved:
        parts.append("moved")
    if modsame:
        parts.append("modified")
    if modmoved:
        parts.append("moved+modified")
    if any(m[2] != m[3] for m in moved) or any(m[1] != m[2] for m in modsame):
        parts.append("kind-change")
    return ",".join(parts) or "no-change"


def compare(A, B, L, ref):
    """L = dict of the eight lists produced by the code for (old=A, new=B). Returns [(clause, msg)]."""
    cf, cd, df, dd, moved, modsame, modmoved = ref
    out = []
    fc, fd, fm, fmv = L["files_created"], L["files_deleted"], L["files_modified"], L["files_moved"]
    dc, ddl, dm, dmv = L["dirs_created"], L["dirs_deleted"], L["dirs_modified"], L["dirs_moved"]
    sfc, sfd, sfm, sfmv, sdc, sdd, sdm, sdmv = set(fc), set(fd), set(fm), set(fmv), set(dc), set(ddl), set(dm), set(dmv)

    # -- reference, list by list ------------------------------------------------------------------
    if sfc | sdc != cf | cd:
        out.append(("created", f"created {sorted(sfc | sdc)}, reference (identity absent from old) {sorted(cf | cd)}"))
    elif sfc != cf or sdc != cd:
        out.append(("kind-lists", f"created files {sorted(sfc)} dirs {sorted(sdc)}, reference files {sorted(cf)} dirs {sorted(cd)}"))
    if sfd | sdd != df | dd:
        out.append(("deleted", f"deleted {sorted(sfd | sdd)}, reference (identity absent from new) {sorted(df | dd)}"))
    elif sfd != df or sdd != dd:
        out.append(("kind-lists", f"deleted files {sorted(sfd)} dirs {sorted(sdd)}, reference files {sorted(df)} dirs {sorted(dd)}"))
    expm = {(p, q) for p, q, _, _ in moved}
    if sfmv | sdmv != expm:
        out.append(("moved", f"moved {sorted(sfmv | sdmv)}, reference (same identity, other path) {sorted(expm)}"))
    else:
        for p, q, ka, kb in moved:
            inf, ind = (p, q) in sfmv, (p, q) in sdmv
            ok = (inf != ind) if ka != kb else (ind and not inf if ka else inf and not ind)
            if not ok:
                out.append(("kind-lists", f"move {(p, q)} of a {'dir' if ka else 'file'}->{'dir' if kb else 'file'} identity: "
                                          f"in files_moved={inf} in dirs_moved={ind}"))
    got = sorted(fm + dm)
    if not modmoved:
        exp = sorted(m[0] for m in modsame)
        ok = got == exp
        assign = [(m[0], m[1], m[2]) for m in modsame]
    else:
        ok = False
        assign = []
        base = [(m[0], m[1], m[2]) for m in modsame]
        for choice in itertools.product((0, 1), repeat=len(modmoved)):
            cand = base + [(m[c], m[2], m[3]) for m, c in zip(modmoved, choice)]
            if sorted(x[0] for x in cand) == got:
                ok, assign = True, cand
                break
    if not ok:
        out.append(("modified", f"modified {got}, reference: kept identity+path with other mtime/size {sorted(m[0] for m in modsame)}"
                                f" plus one of old/new path per moved+changed identity {[(m[0], m[1]) for m in modmoved]}"))
    else:
        for p, ka, kb in assign:
            inf, ind = p in sfm, p in sdm
            if ka == kb:
                good = (ind and not inf) if ka else (inf and not ind)
            else:
                good = inf or ind
            if not good:
                out.append(("kind-lists", f"modified {p} of a {'dir' if ka else 'file'}->{'dir' if kb else 'file'} identity: "
                                          f"in files_modified={inf} in dirs_modified={ind}"))

    # -- laws on the code's own output ---------------------------------------------------------------
    for name in LISTS:
        if len(L[name]) != len(set(L[name])):
            out.append(("duplicates", f"{name} has duplicates: {L[name]}"))
    for a, b in (("files_created", "dirs_created"), ("files_deleted", "dirs_deleted"), ("files_moved", "dirs_moved")):
        if set(L[a]) & set(L[b]):
            out.append(("duplicates", f"{a} and {b} share {sorted(set(L[a]) & set(L[b]))}"))
    cre, dele = sfc | sdc, sfd | sdd
    mv = fmv + dmv
    src = [m[0] for m in mv]
    dst = [m[1] for m in mv]
    ssrc, sdst = set(src), set(dst)
    rebuilt = ((A.paths - dele - ssrc) | cre | sdst)
    if rebuilt != B.paths:
        out.append(("reconstruction", f"old {sorted(A.paths)} - deleted {sorted(dele)} - move sources {sorted(ssrc)} + created "
                                      f"{sorted(cre)} + move destinations {sorted(sdst)} = {sorted(rebuilt)} != new {sorted(B.paths)}"))
    bad = []
    if cre & sdst:
        bad.append(f"created and move destination: {sorted(cre & sdst)}")
    if dele & ssrc:
        bad.append(f"deleted and move source: {sorted(dele & ssrc)}")
    if len(ssrc) != len(set(mv)) or len(sdst) != len(set(mv)):
        bad.append(f"a path is source/destination of two moves: {sorted(set(mv))}")
    if not (cre <= B.paths and sdst <= B.paths and dele <= A.paths and ssrc <= A.paths):
        bad.append("a reported path is not in the snapshot it should come from")
    if not (sfm | sdm) <= (A.paths | B.paths):
        bad.append("a modified path is in neither snapshot")
    if bad:
        out.append(("disjoint", "; ".join(bad)))
    return out


def swap_problems(A, B, L1, L2):
    """L1 = diff(A,B), L2 = diff(B,A)."""
    out = []
    for x, y in (("files_created", "files_deleted"), ("dirs_created", "dirs_deleted"),
                 ("files_deleted", "files_created"), ("dirs_deleted", "dirs_created")):
        if set(L1[x]) != set(L2[y]):
            out.append(("swap", f"{x}(old,new)={sorted(L1[x])} but {y}(new,old)={sorted(L2[y])}"))
    m1 = {(q, p) for p, q in L1["files_moved"] + L1["dirs_moved"]}
    m2 = set(L2["files_moved"] + L2["dirs_moved"])
    if m1 != m2:
        out.append(("swap", f"moves(old,new) reversed = {sorted(m1)} but moves(new,old) = {sorted(m2)}"))
    else:
        same_kind = all(A.view[p][1] == B.view[q][1] for q, p in m1 if p in A.view and q in B.view)
        if same_kind:
            for x in ("files_moved", "dirs_moved"):
                if {(q, p) for p, q in L1[x]} != set(L2[x]):
                    out.append(("swap", f"{x}(old,new)={sorted(L1[x])} is not the reverse of {x}(new,old)={sorted(L2[x])}"))
    return out


def empty_problem(L, what):
    non = {k: v for k, v in L.items() if v}
    if non:
        return [(what, f"expected an empty diff, got {non}")]
    return []


# ------------------------------------------------------------------------------------------------
# workers
# ------------------------------------------------------------------------------------------------
_G = {}


class Acc:
    """Per-job accumulator: counts, signatures, the smallest failing case per clause."""

    def __init__(self):
        self.evals = 0
        self.nontrivial = 0
        self.sigs = set()
        self.bad = {}       # clause -> (sizekey, case, msg, class)
        self.nbad = 0

    def problem(self, clause, msg, A, B, ref, recursive, ignore_device=False):
        self.nbad += 1
        n = A.n + B.n
        k = (clause, recursive)
        old = self.bad.get(k)
        if old is not None and n > old[0][0]:
            return
        cls = case_class(ref) if ref else "-"
        key = (n, len(cls), len(msg))       # smallest trees, then the simplest class of change
        if old is None or key < old[0]:
            case = dict(old=tree_json(A.tree), new=tree_json(B.tree), recursive=recursive, ignore_device=ignore_device,
                        clause=clause)
            self.bad[k] = (key, case, msg, cls)

    def merge(self, o):
        self.evals += o.evals
        self.nontrivial += o.nontrivial
        self.sigs |= o.sigs
        self.nbad += o.nbad
        for c, v in o.bad.items():
            if c not in self.bad or v[0] < self.bad[c][0]:
                self.bad[c] = v


def eval_ordered(acc, A, B, recursive, Diff):
    """One ordered pair: run the real diff, compare with reference and laws. Returns the lists."""
    L = lists_of(Diff(A.snap, B.snap))
    ref = reference(A, B)
    acc.evals += 1
    sig = signature(ref)
    if any(sig):
        acc.nontrivial += 1
        acc.sigs.add(sig)
    for clause, msg in compare(A, B, L, ref):
        acc.problem(clause, msg, A, B, ref, recursive)
    return L, ref


def eval_both(acc, A, B, recursive, Diff):
    L1, ref = eval_ordered(acc, A, B, recursive, Diff)
    L2, _ = eval_ordered(acc, B, A, recursive, Diff)
    for clause, msg in swap_problems(A, B, L1, L2):
        acc.problem(clause, msg, A, B, ref, recursive)


def eval_self(acc, A, recursive, Diff):
    L = lists_of(Diff(A.snap, A.snap))
    acc.evals += 1
    for clause, msg in empty_problem(L, "self-diff"):
        acc.problem(clause, msg + " for diff(s, s)", A, A, None, recursive)
    # a second, independently built snapshot of the same tree
    other = Prep(A.tree, recursive)
    L = lists_of(Diff(A.snap, other.snap))
    acc.evals += 1
    for clause, msg in empty_problem(L, "self-diff"):
        acc.problem(clause, msg + " for two snapshots of the same tree", A, A, None, recursive)


def _job_square(args):
    """All ordered pairs of list `name` with first index in the residue class (k mod m)."""
    name, k, m, recursive = args
    Diff = wd.mod("watchdog.utils.dirsnapshot").DirectorySnapshotDiff
    T = _G[name]
    acc = Acc()
    n = len(T)
    for i in range(k, n, m):
        A = T[i]
        for j in range(i + 1, n):
            eval_both(acc, A, T[j], recursive, Diff)
    return acc


def _job_rect(args):
    """s in structs (residue class) x t in full trees; pairs inside part A's universe and duplicates skipped."""
    sname, tname, k, m = args
    Diff = wd.mod("watchdog.utils.dirsnapshot").DirectorySnapshotDiff
    S, T = _G[sname], _G[tname]
    sidx = _G[sname + ".index"]
    acc = Acc()
    for i in range(k, len(S), m):
        A = S[i]
        for B in T:
            if A.small and B.small:
                continue
            if B.tree == A.tree:
                continue
            j = sidx.get(B.tree)
            if j is not None and j < i:
                continue    # (B, A) with B a struct: evaluated in both directions when B was the struct
            eval_both(acc, A, B, True, Diff)
    return acc


def _job_self(args):
    name, k, m, recursive = args
    Diff = wd.mod("watchdog.utils.dirsnapshot").DirectorySnapshotDiff
    T = _G[name]
    acc = Acc()
    for i in range(k, len(T), m):
        eval_self(acc, T[i], recursive, Diff)
    return acc


def with_devs(tree, vec):
    return tuple((p, ino, d, kind, mt, sz) for (p, ino, _, kind, mt, sz), d in zip(tree, vec))


def device_case(acc, A, vec, Diff):
    B = Prep(with_devs(A.tree, vec), True)
    pure = lists_of(Diff(A.snap, B.snap, ignore_device=True))
    pure2 = lists_of(Diff(B.snap, A.snap, ignore_device=True))
    acc.evals += 2
    for L in (pure, pure2):
        for clause, msg in empty_problem(L, "ignore-device"):
            acc.problem(clause, msg + f" although only st_dev changed (device vector {vec}) and ignore_device=True",
                        A, B, None, True, ignore_device=True)
    # device is part of the identity otherwise
    eval_both(acc, A, B, True, Diff)
    # ignore_device together with a real change: a changed device id must not hide (or invent) anything else -
    # the diff must be the one of the same two trees without the device change (identity = inode alone)
    for idx in range(len(A.tree)):
        for what in (4, 5):   # mtime, size
            t2 = list(A.tree)
            e = list(t2[idx])
            e[what] ^= 1
            t2[idx] = tuple(e)
            Bsame = Prep(tuple(t2), True)
            Bdev = Prep(with_devs(tuple(t2), vec), True)
            for X, Y, Ysame in ((A, Bdev, Bsame), (Bdev, A, None)):
                L = lists_of(Diff(X.snap, Y.snap, ignore_device=True))
                acc.evals += 1
                ref = reference(A, Bsame) if Ysame is not None else reference(Bsame, A)
                for clause, msg in compare(A if Ysame is not None else Bsame, Bsame if Ysame is not None else A, L, ref):
                    acc.problem("ignore-device+" + clause, msg + f" (device vector {vec} with ignore_device=True, "
                                f"entry {A.tree[idx][0]} {'mtime' if what == 4 else 'size'} changed)",
                                X, Y, None, True, ignore_device=True)


def _job_device(args):
    name, k, m = args
    Diff = wd.mod("watchdog.utils.dirsnapshot").DirectorySnapshotDiff
    T = _G[name]
    acc = Acc()
    for i in range(k, len(T), m):
        A = T[i]
        for vec in itertools.product((0, 1), repeat=len(A.tree)):
            if any(vec):
                device_case(acc, A, vec, Diff)
    return acc


# ------------------------------------------------------------------------------------------------
# driver
# ------------------------------------------------------------------------------------------------
_ALL = Acc()


def _flush_violations(ctx):
    """One violation per (clause, recursive): the smallest failing case over all parts."""
    for (clause, _), (key, case, msg, cls) in sorted(_ALL.bad.items()):
        rec = "recursive" if case["recursive"] else "non-recursive"
        ctx.add_violation(dict(
            kind=clause, fp=f"C09 {clause} [{rec}; smallest failing case: {cls}]",
            msg=f"{msg}\n old tree (path, inode, dev, kind, mtime, size): {case['old']}\n new tree: {case['new']}\n"
                f" recursive={case['recursive']} ignore_device={case['ignore_device']}; "
                f"{_ALL.nbad} failing evaluations in total",
            prefix=[], harness="enum", case=case))


def _report(ctx, name, acc, samples, extra=None, exhaustive=True):
    for k, v in acc.bad.items():
        if k not in _ALL.bad or v[0] < _ALL.bad[k][0]:
            _ALL.bad[k] = v
    _ALL.nbad += acc.nbad
    ex = dict(distinct_signatures=len(acc.sigs), failing_evaluations=acc.nbad)
    if extra:
        ex.update(extra)
    ctx.add_enum(name, acc.evals, acc.nontrivial, samples=samples, exhaustive=exhaustive, extra=ex)


def _sample(A, B):
    Diff = wd.mod("watchdog.utils.dirsnapshot").DirectorySnapshotDiff
    L = lists_of(Diff(A.snap, B.snap))
    return dict(old=tree_json(A.tree), new=tree_json(B.tree), diff={k: v for k, v in L.items() if v})


def _pool_run(pool, fn, jobs):
    acc = Acc()
    for r in pool.imap(fn, jobs):
        acc.merge(r)
    return acc


def setup(tier):
    wd.load()
    return [], None


def run(ctx):
    import multiprocessing

    wd.load()
    _ALL.__init__()
    quick = ctx.tier == "quick"
    W = ctx.workers
    M = W * 8    # residue classes per part (load balance: row i has n-i pairs)

    # ---- universes (built before the fork: workers share them copy-on-write) ------------------------
    problems = Acc()
    a2 = [Prep(t) for t in gen_trees(2, 3, root_mtimes=(0, 1))]
    _G["A2"] = a2
    if quick:
        full = [Prep(t) for t in gen_trees(3, 3)]
        structs = [Prep(t) for t in gen_trees(3, 3, attrs=((0, 0),))]
        a_nmax, a_pool = 2, 3
    else:
        a3 = [Prep(t) for t in gen_trees(3, 3)]
        _G["A3"] = a3
        full = [Prep(t) for t in gen_trees(4, 4)]
        structs = [Prep(t) for t in gen_trees(4, 4, attrs=((0, 0),))]
        a_nmax, a_pool = 3, 3
    for P in full + structs:
        P.small = P.n <= a_nmax and all(e[1] <= a_pool for e in P.tree[1:])
    _G["FULL"], _G["STRUCT"] = full, structs
    _G["STRUCT.index"] = {P.tree: i for i, P in enumerate(structs)}

    # snapshot contents = reachable entries (validates the input of the reference), recursive
    n_content = 0
    for P in a2 + full:
        n_content += 1
        msg = snapshot_content_problem(P)
        if msg:
            problems.problem("snapshot-content", msg, P, P, None, True)

    # non-recursive: every tree, distinct snapshot contents
    nonrec = {}
    for P in full:
        for rm in (0, 1):
            tree = ((ROOT, ROOT_INO, 0, "d", rm, 0),) + P.tree[1:]
            Q = Prep(tree, recursive=False)
            n_content += 1
            msg = snapshot_content_problem(Q)
            if msg:
                problems.problem("snapshot-content", msg, Q, Q, None, False)
            key = tuple(sorted(Q.view.items()))
            if key not in nonrec:
                nonrec[key] = Q
    _G["NONREC"] = list(nonrec.values())
    problems.evals = n_content
    _report(ctx, "snapshot-content (recursive + non-recursive snapshot of every tree = reachable entries)", problems,
            [dict(tree=tree_json(full[-1].tree), snapshot_paths=sorted(full[-1].snap.paths))],
            extra=dict(trees=len(a2) + len(full), distinct_nonrecursive_contents=len(nonrec)))

    mp = multiprocessing.get_context("fork")
    with mp.Pool(W) as pool:
        # ---- part A ------------------------------------------------------------------------------
        acc = _pool_run(pool, _job_square, [("A2", k, M, True) for k in range(M)])
        _report(ctx, "A: all ordered pairs, <=2 entries, pool 3, full mtime x size, root mtime {0,1}", acc,
                [_sample(a2[40], a2[-1])], extra=dict(trees=len(a2), ordered_pairs=len(a2) * (len(a2) - 1)))
        if not quick:
            acc = _pool_run(pool, _job_square, [("A3", k, M, True) for k in range(M)])
            _report(ctx, "A: all ordered pairs, <=3 entries, pool 3, full mtime x size", acc,
                    [_sample(a3[-1], a3[3000])], extra=dict(trees=len(a3), ordered_pairs=len(a3) * (len(a3) - 1)))
        # ---- part B ------------------------------------------------------------------------------
        acc = _pool_run(pool, _job_rect, [("STRUCT", "FULL", k, M) for k in range(M)])
        _report(ctx, f"B: (mtime=size=0 tree) x (full tree), both orders, <={3 if quick else 4} entries, pool {3 if quick else 4}",
                acc, [_sample(structs[-1], full[len(full) // 2])],
                extra=dict(zero_attr_trees=len(structs), full_trees=len(full)))
        # ---- part N ------------------------------------------------------------------------------
        acc = _pool_run(pool, _job_square, [("NONREC", k, M, False) for k in range(M)])
        nr = _G["NONREC"]
        _report(ctx, "N: non-recursive snapshots, all ordered pairs of distinct contents", acc,
                [_sample(nr[-1], nr[len(nr) // 2])], extra=dict(distinct_contents=len(nr)))
        # ---- part S ------------------------------------------------------------------------------
        acc = _pool_run(pool, _job_self, [("FULL", k, M, True) for k in range(M)])
        acc.merge(_pool_run(pool, _job_self, [("A2", k, M, True) for k in range(M)]))
        acc.merge(_pool_run(pool, _job_self, [("NONREC", k, M, False) for k in range(M)]))
        _report(ctx, "S: diff(s,s) and diff of two snapshots of the same tree are empty", acc,
                [dict(tree=tree_json(full[-1].tree), diff={})], extra=dict(trees=len(full) + len(a2) + len(nr)))
        # ---- part D ------------------------------------------------------------------------------
        acc = _pool_run(pool, _job_device, [("FULL", k, M) for k in range(M)])
        _report(ctx, "D: per-entry device vectors: ignore_device=True gives an empty diff; device is part of identity otherwise",
                acc, [dict(tree=tree_json(full[-1].tree), new_devices=[1] * len(full[-1].tree), ignore_device=True, diff={})],
                extra=dict(trees=len(full)))
    _flush_violations(ctx)


# ------------------------------------------------------------------------------------------------
# replay
# ------------------------------------------------------------------------------------------------
def evaluate_case(case):
    """Everything the check asserts about one pair; returns [(clause, msg)]."""
    Diff = wd.mod("watchdog.utils.dirsnapshot").DirectorySnapshotDiff
    rec = case.get("recursive", True)
    A = Prep(tree_from_json(case["old"]), rec)
    B = Prep(tree_from_json(case["new"]), rec)
    out = []
    for P in (A, B):
        m = snapshot_content_problem(P)
        if m:
            out.append(("snapshot-content", m))
    if case.get("ignore_device"):
        for X, Y in ((A, B), (B, A)):
            out += empty_problem(lists_of(Diff(X.snap, Y.snap, ignore_device=True)), "ignore-device")
    L1 = lists_of(Diff(A.snap, B.snap))
    L2 = lists_of(Diff(B.snap, A.snap))
    print("diff(old,new):", {k: v for k, v in L1.items() if v})
    print("diff(new,old):", {k: v for k, v in L2.items() if v})
    if A.tree == B.tree:
        out += empty_problem(L1, "self-diff")
    out += compare(A, B, L1, reference(A, B))
    out += compare(B, A, L2, reference(B, A))
    out += swap_problems(A, B, L1, L2)
    return out


def replay(rec):
    wd.load()
    case = rec["case"]
    print("old tree:", case["old"])
    print("new tree:", case["new"])
    print("recursive:", case.get("recursive", True), "ignore_device:", case.get("ignore_device", False))
    probs = evaluate_case(case)
    for clause, msg in probs:
        print(f"VERDICT: {clause} - {msg}")
    if probs:
        print("VIOLATION property=C09 replay=(case above)")
        return 1
    print("the recorded violation does not reproduce on this tree")
    return 0
