"""C02 - a recursive watch covers every directory that exists, under its current name."""

from __future__ import annotations

from wdmc import fsops, wd

LEVEL = "model_checking"
RULE = ("explicit-state BFS over drained states of (real tree, real InotifyObserver): from every small initial tree, "
        "every burst of 1..k operations of the alphabet (mknod, mkdir, makedirs, append, truncate, chmod, unlink, "
        "rmdir, rmtree, rename incl. replacing, move out, move in file/dir/tree, operations on moved-out directories) "
        "with intra-burst pacing burst/settle that respects the directory pacing condition; each edge replays its "
        "whole history on a fresh observer under the deterministic scheduler; after the final drain a probe file is "
        "created in every existing directory; states merged on (tree, library watch map vs kernel watch list)")
ASSUMPTIONS = [
    "real Linux inotify of this kernel as environment, serialised by the scheduler (one thread inside a syscall at a time)",
    "thread interleavings inside the library are the default schedule here (library-internal races: C04/C08/C12/C16/C17); "
    "operator placement / split reads are explored by the thorough tier of C01/C07",
]


def setup(tier):
    wd.load()
    return [], None


FULL = {"d": "d", "d/d": "d", "e": "d", "e/d": "d"}   # deep enough for replace + ancestor rename chains


def plan(tier):
    q = tier == "quick"
    rec = fsops.Config(recursive=True, outside_ops=False)
    flat = fsops.Config(recursive=False, outside_ops=False)
    recb = fsops.Config(recursive=True, root_type="bytes", outside_ops=False)
    if q:
        return [
            dict(cfgs=[rec], trees=fsops.small_trees(3), burst_len=2, depth=1, cap=60000),
            dict(cfgs=[rec], trees=fsops.small_trees(1), burst_len=1, depth=3, cap=20000),
            dict(cfgs=[flat, recb], trees=fsops.small_trees(2), burst_len=1, depth=1, cap=20000),
            dict(cfgs=[rec], trees=[FULL], burst_len=1, depth=3, cap=20000),
            dict(cfgs=[fsops.Config(outside_ops=False, names="prefix")], trees=fsops.small_trees(2), burst_len=1, depth=2, cap=20000),
        ]
    return [
        dict(cfgs=[rec], trees=fsops.small_trees(4), burst_len=2, depth=2, cap=1_500_000),
        dict(cfgs=[rec], trees=fsops.small_trees(2), burst_len=3, depth=1, cap=600_000),
        dict(cfgs=[flat, recb], trees=fsops.small_trees(3), burst_len=2, depth=1, cap=300_000),
        dict(cfgs=[rec], trees=[FULL], burst_len=1, depth=4, cap=300_000),
        dict(cfgs=[fsops.Config(outside_ops=False, names="prefix")], trees=fsops.small_trees(3), burst_len=2, depth=1, cap=400_000),
    ]


CHECKS = [fsops.check_probes]


def run(ctx):
    for i, p in enumerate(plan(ctx.tier)):
        fsops.graph_search(ctx, p["cfgs"], p["trees"], CHECKS, burst_len=p["burst_len"], depth=p["depth"],
                           respect_pacing=True, cap=p["cap"], label=f"graph{i}", classify=fsops.classify)


def replay(rec):
    return fsops.replay_record(rec, CHECKS)
