"""C01 - replaying the native (inotify) event stream reproduces the real directory tree."""

from __future__ import annotations

from wdmc import fsops, wd

LEVEL = "model_checking"
RULE = ("explicit-state BFS over drained states of (real tree, real InotifyObserver) as in C02 (all bursts of 1..k "
        "operations respecting the directory pacing condition, from every small initial tree, recursive / "
        "non-recursive, str / bytes root, normal / full emitter) plus, on single bursts, all schedules with <= bound "
        "deviations (operator resumed early at any library seam call, kernel buffer split at any record boundary, "
        "pairing delay expiring early); oracle: created/deleted/moved events applied in delivery order to the initial "
        "tree must give os.walk of the real tree after the final drain")
ASSUMPTIONS = [
    "real Linux inotify of this kernel as environment, serialised by the scheduler",
    "replay semantics are total and idempotent (created = ensure present, deleted = remove subtree, moved with an "
    "unknown source = arrival); modified/opened/closed events are ignored",
]


def setup(tier):
    wd.load()
    return [], None


FULL = {"d": "d", "d/d": "d", "e": "d", "e/d": "d"}   # deep enough for replace + ancestor rename chains


def plan(tier):
    q = tier == "quick"
    C = lambda **kw: fsops.Config(outside_ops=False, **kw)
    rec, flat, recb, full = C(), C(recursive=False), C(root_type="bytes"), C(full=True)
    if q:
        return [
            dict(cfgs=[rec], trees=fsops.small_trees(3), burst_len=2, depth=1, cap=60000),
            dict(cfgs=[rec], trees=fsops.small_trees(1), burst_len=1, depth=3, cap=20000),
            dict(cfgs=[flat, recb, full], trees=fsops.small_trees(2), burst_len=1, depth=1, cap=20000),
            dict(cfgs=[rec], trees=[FULL], burst_len=1, depth=3, cap=20000),
            dict(cfgs=[C(names="prefix")], trees=fsops.small_trees(2), burst_len=1, depth=2, cap=20000),
        ]
    return [
        dict(cfgs=[rec], trees=fsops.small_trees(4), burst_len=2, depth=2, cap=1_500_000),
        dict(cfgs=[rec], trees=fsops.small_trees(2), burst_len=3, depth=1, cap=600_000),
        dict(cfgs=[flat, recb, full], trees=fsops.small_trees(3), burst_len=2, depth=1, cap=400_000),
        dict(cfgs=[rec], trees=[FULL], burst_len=1, depth=4, cap=300_000),
        dict(cfgs=[C(names="prefix")], trees=fsops.small_trees(3), burst_len=2, depth=1, cap=400_000),
    ]


CHECKS = [fsops.check_replay]


def run(ctx):
    for i, p in enumerate(plan(ctx.tier)):
        fsops.graph_search(ctx, p["cfgs"], p["trees"], CHECKS, burst_len=p["burst_len"], depth=p["depth"],
                           respect_pacing=True, cap=p["cap"], label=f"graph{i}", classify=fsops.classify)
    fsops.deviation_search(ctx, CHECKS, tier=ctx.tier, respect_pacing=True)


def replay(rec):
    return fsops.replay_record(rec, CHECKS)
