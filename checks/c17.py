"""C17 - delay queue: FIFO, never early, loses or duplicates nothing; close() unblocks.

Real `DelayedQueue` with one producer, one consumer and one remover/closer thread under the
deterministic scheduler; all interleavings (line/instruction level inside delayed_queue.py) up to
a deviation bound, timers may fire early, virtual gaps around the delay boundary.
"""

from __future__ import annotations

import itertools

from wdmc import explore as ex
from wdmc import vsched, wd

LEVEL = "model_checking"
RULE = ("program = (producer script of puts with delay flag and virtual gap, remover/closer script); for each "
        "program all schedules of producer/consumer/remover with <= bound deviations (preemptions at "
        "line/shared-access instruction level inside delayed_queue.py, early timer expiry); a case is "
        "distinct/non-trivial by its observable outcome (sequence and virtual times of get/remove results)")
ASSUMPTIONS = [
    "'available immediately once at the head' is read as: a get() never sleeps when every element was put "
    "without delay (a consumer already sleeping on a removed delayed head may finish that sleep)",
    "not-early is checked against the virtual time at which put() was called (insertion is never earlier)",
]

D = 1.0
GAPS = (0.0, 0.5, 1.0, 1.5)


class DQHarness(ex.Harness):
    sched_kwargs = dict(max_steps=4000)

    def __init__(self, puts, script):
        self.puts = tuple(puts)      # ((delay, gap_before), ...)
        self.script = tuple(script)  # (("remove", k) | ("close",) | ("gap", x), ...)
        self.name = "dq puts=" + ",".join(f"{'D' if d else 'N'}{g}" for d, g in puts) + \
                    " script=" + ",".join(":".join(map(str, o)) for o in script)
        self.has_close = any(o[0] == "close" for o in script)

    def body(self, s):
        DelayedQueue = wd.mod("watchdog.utils.delayed_queue").DelayedQueue
        T = vsched.vthreading.Thread
        q = DelayedQueue(D)
        log = []
        s.env["sleep_log"] = sl = []

        def producer():
            for k, (delay, gap) in enumerate(self.puts):
                if gap:
                    vsched.vtime.sleep(gap)
                log.append(("put", k, s.clock))
                q.put(("e", k), delay=delay)
                log.append(("put_ret", k, s.clock))

        def consumer():
            while True:
                log.append(("get", None, s.clock))
                e = q.get()
                log.append(("get_ret", None if e is None else e[1], s.clock))
                if e is None:
                    break
            log.append(("get", None, s.clock))
            e = q.get()
            log.append(("get_ret2", None if e is None else e[1], s.clock))

        def remover():
            for op in self.script:
                if op[0] == "gap":
                    vsched.vtime.sleep(op[1])
                elif op[0] == "remove":
                    k = op[1]
                    r = q.remove(lambda e, k=k: e[1] == k)
                    log.append(("remove_ret", k, None if r is None else r[1], s.clock))
                elif op[0] == "close":
                    q.close()
                    log.append(("close_ret", None, s.clock))

        ts = [T(target=producer, name="producer"), T(target=consumer, name="consumer"),
              T(target=remover, name="remover")]
        for t in ts:
            t.start()
        s.idle("drain")
        cons_alive = ts[1].is_alive()
        log.append(("quiescent", cons_alive, s.clock))
        if not self.has_close:
            q.close()
            log.append(("close_ret", None, s.clock))
        for t in ts:
            t.join()
        return dict(log=log, consumer_sleeps=[x for x in sl if x[0] == "consumer"])

    def check(self, res):
        out = self.base_check(res)
        if res.value is None:
            return out
        log = res.value["log"]
        n = len(self.puts)
        put_t = {}
        got, removed = [], []
        close_idx = None
        for i, e in enumerate(log):
            if e[0] == "put":
                put_t[e[1]] = e[2]
            elif e[0] == "get_ret" and e[1] is not None:
                got.append((e[1], e[2], i))
            elif e[0] == "remove_ret" and e[2] is not None:
                removed.append(e[2])
            elif e[0] == "close_ret" and close_idx is None:
                close_idx = i

        def v(kind, msg):
            out.append(dict(kind=kind, msg=f"{msg}; log={log}", fp=f"{kind}"))

        ks = [k for k, _, _ in got]
        if len(set(ks)) != len(ks):
            v("duplicate-get", f"element returned twice by get(): {ks}")
        if len(set(removed)) != len(removed):
            v("duplicate-remove", f"element removed twice: {removed}")
        both = set(ks) & set(removed)
        if both:
            v("got-and-removed", f"elements {sorted(both)} handed out by get() and by remove()")
        if ks != sorted(ks):
            v("fifo", f"get() order {ks} is not the put order")
        for k, t, _ in got:
            if self.puts[k][0] and t < put_t[k] + D - 1e-9:
                v("early", f"delayed element {k} put at {put_t[k]} returned at {t} < put+{D}")
        # quiescence without a close in the script: everything handed out exactly once
        qi = next(i for i, e in enumerate(log) if e[0] == "quiescent")
        if not self.has_close:
            handed = set(k for k, _, i in got if i < qi) | set(removed)
            if handed != set(range(n)):
                v("lost", f"at quiescence elements {sorted(set(range(n)) - handed)} were neither returned nor removed")
        # gets begun after close() returned must give None
        if close_idx is not None:
            pending_get = None
            for i, e in enumerate(log):
                if e[0] == "get":
                    pending_get = i
                elif e[0] in ("get_ret", "get_ret2"):
                    if pending_get is not None and pending_get > close_idx and e[1] is not None:
                        v("get-after-close", f"get() begun after close() returned element {e[1]}")
                    pending_get = None
        last = log[-1] if log else None
        if not res.abort and not any(e[0] == "get_ret2" and e[1] is None for e in log):
            v("no-end-marker", "consumer did not get the end marker after close()")
        if all(not d for d, _ in self.puts) and res.value["consumer_sleeps"]:
            v("sleep-without-delay", f"get() slept {res.value['consumer_sleeps']} although nothing was put with delay")
        return out

    def outcome(self, res):
        if res.value is None:
            return repr((res.abort and res.abort[0], res.errors))
        return repr(([e for e in res.value["log"] if e[0].endswith("ret") or e[0] == "get_ret2"],
                     res.abort and res.abort[0], res.errors, res.leaked))


def harnesses(tier):
    hs = []
    scripts_for = lambda n: ([()] + [(("remove", k),) for k in range(n)] + [(("close",),)]
                             + [(("remove", 0), ("close",))] + [(("gap", 0.5), ("remove", 0))]
                             + ([(("remove", 1), ("remove", 0))] if n >= 2 else []))
    # one and two puts: full product of delay flags x gaps
    for n in (1, 2):
        for flags in itertools.product((False, True), repeat=n):
            for gaps in itertools.product(GAPS, repeat=n - 1):
                puts = [(flags[0], 0.0)] + [(flags[i], gaps[i - 1]) for i in range(1, n)]
                for sc in scripts_for(n):
                    hs.append(DQHarness(puts, sc))
    # three / four puts: all delay flags, one common gap
    for n in ((3,) if tier == "quick" else (3, 4)):
        for flags in itertools.product((False, True), repeat=n):
            for g in GAPS:
                puts = [(flags[0], 0.0)] + [(flags[i], g) for i in range(1, n)]
                for sc in ([(), (("remove", 1),), (("remove", 0), ("close",))] if tier == "quick" else scripts_for(n)):
                    hs.append(DQHarness(puts, sc))
    return hs


def instrument():
    dq = wd.mod("watchdog.utils.delayed_queue")
    C = dq.DelayedQueue
    return vsched.instrument(line_modules=[dq], instr_functions=[(C, "get"), (C, "remove"), (C, "close"), (C, "put")])


def _vsleep_logged(secs):
    s = vsched.S
    if s is not None and s.active and "sleep_log" in s.env:
        s.env["sleep_log"].append((s.me().name, secs))
    vsched._vsleep(secs)


def setup(tier):
    wd.load()
    desc = instrument()
    wd.mod("watchdog.utils.delayed_queue").time = vsched._make_module(
        "time", dict(time=vsched._vtime, sleep=_vsleep_logged), vsched.vtime)
    return harnesses(tier), desc


def run(ctx):
    hs, ctx.instrumented = setup(ctx.tier)
    n1 = [h for h in hs if len(h.puts) == 1]
    n2 = [h for h in hs if len(h.puts) == 2]
    big = [h for h in hs if len(h.puts) > 2]
    if ctx.tier == "quick":
        jobs = [(h, 2) for h in n1] + [(h, 1) for h in n2] + [(h, 1) for h in big]
    else:
        jobs = [(h, 3) for h in n1] + [(h, 2) for h in n2] + [(h, 1) for h in big]
    ctx.explore_many(jobs, cap=3_000_000 if ctx.tier == "quick" else 80_000_000)
