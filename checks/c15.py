"""C15 - handlers call exactly the callbacks dictated by the event type and the match rules.

Plain exhaustive enumeration (no scheduling): every event class x paths of a small universe (str and
bytes) x include/exclude lists x case_sensitive x ignore_directories, fed to recording subclasses of
FileSystemEventHandler, PatternMatchingEventHandler and RegexMatchingEventHandler and to
filter_paths / match_any_paths, compared with a reference evaluator written from the property
statement (pathlib's PurePosixPath.match / PureWindowsPath.match and re.match used directly).
"""

from __future__ import annotations

import itertools
import multiprocessing
import re
from pathlib import PurePosixPath, PureWindowsPath

from wdmc import wd

LEVEL = "exploration"

# class name -> (callback the statement demands, is a directory event, has a destination)
CLASSES = {
    "FileMovedEvent": ("on_moved", False, True),
    "DirMovedEvent": ("on_moved", True, True),
    "FileModifiedEvent": ("on_modified", False, False),
    "DirModifiedEvent": ("on_modified", True, False),
    "FileCreatedEvent": ("on_created", False, False),
    "DirCreatedEvent": ("on_created", True, False),
    "FileDeletedEvent": ("on_deleted", False, False),
    "DirDeletedEvent": ("on_deleted", True, False),
    "FileClosedEvent": ("on_closed", False, False),
    "FileClosedNoWriteEvent": ("on_closed_no_write", False, False),
    "FileOpenedEvent": ("on_opened", False, False),
}
CALLBACKS = ["on_moved", "on_created", "on_deleted", "on_modified", "on_closed", "on_closed_no_write", "on_opened"]
PATHS = ("a.a", "A.a", "b.A", "a/b.a", "A/b.a", "b")
GLOBS = ("*", "*.a", "*.A", "a/*", "b*")
REGEXES = (r".*", r".*\.a$", r".*\.A$", r"^a/.*", r"^b.*")
EMPTY_ONLY = r"^$"

RULE = ("events: 11 event classes x src in {a.a, A.a, b.A, a/b.a, A/b.a, b} (moved events: src and dest each from that "
        "set plus the empty path, not both empty) x {str, bytes} = 300 events; configurations: include list x exclude "
        "list, each from {None, [], every 1-list, every 2-list} over the 5 globs {*, *.a, *.A, a/*, b*} resp. the 5 "
        "regexes {.*, .*\\.a$, .*\\.A$, ^a/.*, ^b.*} (quick: 2-lists are unordered pairs, 17 lists; thorough: ordered "
        "pairs including repeated elements, 32 lists, and the regex universe gains '^$', 44 lists) x case_sensitive x "
        "ignore_directories; parts: base handler x every event; pattern handler and regex handler x full product "
        "events x configurations; filter_paths/match_any_paths x path lists of length <= 2 (quick) / <= 3 (thorough) "
        "over the 6 paths and the empty path x the glob configurations x case_sensitive in {True, False, omitted}. "
        "The full product is enumerated in both tiers, every case is a distinct input; distinct_nontrivial = cases "
        "whose reference verdict is 'dispatch' (handlers) / whose accepted sub-sequence is non-empty (filters)")
ASSUMPTIONS = [
    "an event's paths are its non-empty src_path and (if non-empty) dest_path, bytes decoded with the file system "
    "encoding; the empty dest_path of non-moved events is not a path",
    "case-insensitive glob matching = PureWindowsPath(path).match(pattern), case-sensitive = PurePosixPath(path)"
    ".match(pattern); case-insensitive regex matching = re.match with re.IGNORECASE",
    "'a pattern both included and excluded' is judged after case folding when case-insensitive (*.a and *.A conflict "
    "then); a handler built with such lists must raise ValueError from dispatch (and call nothing) unless the event "
    "is an ignored directory event",
    "an omitted include list is the one-pattern list ['*'] (as documented), hence omitted include + excluded '*' "
    "counts as a pattern both included and excluded (ValueError expected, which is what the code does)",
    "filter_paths/match_any_paths with conflicting lists must raise ValueError when at least one path is given; "
    "with an empty path list both [] / False and ValueError are accepted (nothing is evaluated)",
    "include and exclude lists are str lists; str and bytes are not mixed within one moved event",
]


# ------------------------------------------------------------------------------------------------
# universes
# ------------------------------------------------------------------------------------------------
def event_descs():
    out = []
    for typ in ("str", "bytes"):
        for cls, (_, _, moved) in CLASSES.items():
            if moved:
                for src in PATHS + ("",):
                    for dest in PATHS + ("",):
                        if src or dest:
                            out.append((cls, src, dest, typ))
            else:
                for src in PATHS:
                    out.append((cls, src, None, typ))
    # simplest first: non-moved before moved
    out.sort(key=lambda d: (d[2] is not None, d[3] == "bytes"))
    return out


def make_event(desc):
    ev = wd.mod("watchdog.events")
    cls, src, dest, typ = desc
    conv = (lambda s: s.encode()) if typ == "bytes" else (lambda s: s)
    if dest is None:
        return getattr(ev, cls)(conv(src))
    return getattr(ev, cls)(conv(src), conv(dest))


def list_options(universe, ordered):
    out = [None, ()]
    out += [(x,) for x in universe]
    if ordered:
        out += list(itertools.product(universe, repeat=2))
    else:
        out += list(itertools.combinations(universe, 2))
    return out


def configs(universe, ordered):
    opts = list_options(universe, ordered)
    cs = [(i, e) for i in opts for e in opts]
    cs.sort(key=lambda c: len(c[0] or ()) + len(c[1] or ()))  # stable: simplest first
    return cs


# ------------------------------------------------------------------------------------------------
# reference evaluator (from the statement)
# ------------------------------------------------------------------------------------------------
def glob_match(path, pattern, cs):
    return (PurePosixPath(path) if cs else PureWindowsPath(path)).match(pattern)


def regex_match(path, regex, cs):
    return re.match(regex, path, 0 if cs else re.IGNORECASE) is not None


def conflict(inc, exc, cs):
    fold = (lambda s: s) if cs else str.lower
    inc = ("*",) if inc is None else inc  # the documented default include list is the pattern "*" itself
    return bool({fold(p) for p in inc} & {fold(p) for p in (exc or ())})


def accept_glob(path, inc, exc, cs):
    inc = ("*",) if inc is None else inc
    exc = () if exc is None else exc
    return any(glob_match(path, p, cs) for p in inc) and not any(glob_match(path, p, cs) for p in exc)


def event_paths(desc, with_empty=False):
    _, src, dest, _ = desc
    ps = [src] + ([dest] if dest is not None else ([""] if with_empty else []))
    return [p for p in ps if p or with_empty]


def ref_pattern(desc, inc, exc, cs, igndir, table=None, with_empty=False):
    if igndir and CLASSES[desc[0]][1]:
        return "ignored-directory"
    if conflict(inc, exc, cs):
        return "ValueError"
    acc = table if table is not None else {p: accept_glob(p, inc, exc, cs) for p in PATHS + ("",)}
    return "dispatch" if any(acc[p] for p in event_paths(desc, with_empty)) else "no-dispatch"


def regex_tables(inc, exc, cs):
    inc = (r".*",) if inc is None else inc
    exc = () if exc is None else exc
    univ = PATHS + ("",)
    return ({p: any(regex_match(p, r, cs) for r in inc) for p in univ},
            {p: any(regex_match(p, r, cs) for r in exc) for p in univ})


def ref_regex(desc, inc, exc, cs, igndir, tables=None, with_empty=False):
    if igndir and CLASSES[desc[0]][1]:
        return "ignored-directory"
    hit, ign = tables if tables is not None else regex_tables(inc, exc, cs)
    ps = event_paths(desc, with_empty)
    if any(ign[p] for p in ps):
        return "no-dispatch"
    return "dispatch" if any(hit[p] for p in ps) else "no-dispatch"


# ------------------------------------------------------------------------------------------------
# observation
# ------------------------------------------------------------------------------------------------
_REC = {}


def recording(kind):
    if kind in _REC:
        return _REC[kind]
    ev = wd.mod("watchdog.events")
    base = dict(base=ev.FileSystemEventHandler, pattern=ev.PatternMatchingEventHandler,
                regex=ev.RegexMatchingEventHandler)[kind]

    class Rec(base):
        def __init__(self, **kw):
            super().__init__(**kw)
            self.log = []

    def mk(name):
        def cb(self, event):
            self.log.append((name, event))
        cb.__name__ = name
        return cb

    for m in ["on_any_event"] + CALLBACKS:
        setattr(Rec, m, mk(m))
    Rec.__name__ = f"Recording_{kind}"
    _REC[kind] = Rec
    return Rec


def make_handler(kind, inc, exc, cs, igndir):
    R = recording(kind)
    if kind == "base":
        return R()
    kw = dict(case_sensitive=cs, ignore_directories=igndir)
    a, b = ("patterns", "ignore_patterns") if kind == "pattern" else ("regexes", "ignore_regexes")
    # None = the argument is omitted altogether (the default)
    if inc is not None:
        kw[a] = list(inc)
    if exc is not None:
        kw[b] = list(exc)
    return R(**kw)


def observe(handler, event, desc):
    handler.log.clear()
    try:
        handler.dispatch(event)
    except ValueError as e:
        return "ValueError" if not handler.log else f"ValueError after callbacks {[n for n, _ in handler.log]}", str(e)
    except Exception as e:  # noqa: BLE001
        return f"raised {type(e).__name__}", str(e)
    log = handler.log
    if not log:
        return "no-dispatch", ""
    names = [n for n, _ in log]
    if names == ["on_any_event", CLASSES[desc[0]][0]] and all(e is event for _, e in log):
        return "dispatch", ""
    if names == ["on_any_event", CLASSES[desc[0]][0]]:
        return "callbacks got another event object", repr(log)
    return "wrong callbacks", repr(names)


def kind_of(desc):
    cls, src, dest, typ = desc
    k = ("dir " if CLASSES[cls][1] else "file ") + ("moved" if dest is not None else "non-moved")
    if dest is not None and not dest:
        k += " with empty dest_path"
    if not src:
        k += " with empty src_path"
    return k


def handler_case(kind, desc, inc, exc, cs, igndir):
    return dict(part=f"{kind}-handler", event=list(desc), include=None if inc is None else list(inc),
                exclude=None if exc is None else list(exc), case_sensitive=cs, ignore_directories=igndir)


def judge_handler(kind, desc, inc, exc, cs, igndir, handler=None, event=None, tables=None):
    """Returns (expected, observed, violation-or-None)."""
    handler = handler or make_handler(kind, inc, exc, cs, igndir)
    event = event if event is not None else make_event(desc)
    obs, detail = observe(handler, event, desc)
    if kind == "base":
        exp = "dispatch"
    elif kind == "pattern":
        exp = ref_pattern(desc, inc, exc, cs, igndir, tables)
    else:
        exp = ref_regex(desc, inc, exc, cs, igndir, tables)
    ok = obs == exp or (exp == "ignored-directory" and obs == "no-dispatch")
    if ok:
        return exp, obs, None
    why = ""
    fp = f"{kind}-handler: expected {exp}, got {obs}; {kind_of(desc)} event"
    if kind in ("pattern", "regex"):
        alt = (ref_pattern if kind == "pattern" else ref_regex)(desc, inc, exc, cs, igndir, None, with_empty=True)
        if alt == obs:
            # one root cause, whatever the event flavour and the direction of the wrong verdict
            why = (" (explained by: the empty dest_path of a non-moved event is matched as if it were a path)"
                   if desc[2] is None else
                   " (explained by: the empty path of a moved event is matched as if it were a path)")
            fp = f"{kind}-handler: an empty dest_path/src_path is matched as if it were a path of the event"
    case = handler_case(kind, desc, inc, exc, cs, igndir)
    msg = (f"{kind} handler include={case['include']} exclude={case['exclude']} case_sensitive={cs} "
           f"ignore_directories={igndir}, event {event!r}: reference verdict {exp} (paths of the event: "
           f"{event_paths(desc)}), observed {obs} {detail}{why}")
    return exp, obs, dict(kind="dispatch-rule", fp=fp, msg=msg, prefix=[], harness="enum", case=case)


def filter_case(paths, inc, exc, cs):
    return dict(part="filter", paths=list(paths), include=None if inc is None else list(inc),
                exclude=None if exc is None else list(exc), case_sensitive=cs)


def judge_filter(paths, inc, exc, cs):
    """cs in (True, False, 'omitted').  Returns (verdict class, [violations])."""
    pt = wd.mod("watchdog.utils.patterns")
    eff_cs = True if cs == "omitted" else cs
    kw = {}
    if inc is not None:
        kw["included_patterns"] = list(inc)
    if exc is not None:
        kw["excluded_patterns"] = list(exc)
    before = {k: list(v) for k, v in kw.items()}
    if cs != "omitted":
        kw["case_sensitive"] = cs
    arg = list(paths)
    out = []
    case = filter_case(paths, inc, exc, cs)

    def bad(clause, msg):
        out.append(dict(kind="path-filter", fp=f"{clause}; {'case-sensitive' if eff_cs else 'case-insensitive'}",
                        msg=f"{msg}; paths={list(paths)} include={case['include']} exclude={case['exclude']} "
                            f"case_sensitive={cs}", prefix=[], harness="enum", case=case))

    def call(f, post):
        try:
            return "value", post(f(arg, **kw))
        except ValueError as e:
            return "ValueError", str(e)
        except Exception as e:  # noqa: BLE001
            return f"raised {type(e).__name__}", str(e)

    got_f = call(pt.filter_paths, list)
    got_m = call(pt.match_any_paths, lambda x: x)
    if arg != list(paths) or any(kw[k] != v for k, v in before.items()):
        bad("filter functions modified their arguments", f"arguments after the calls: {arg} {kw}")
    if conflict(inc, exc, eff_cs):
        verdict = "ValueError"
        for name, got in (("filter_paths", got_f), ("match_any_paths", got_m)):
            if got[0] == "ValueError" or (not paths and got in (("value", []), ("value", False))):
                continue
            bad(f"{name}: conflicting include/exclude pattern not rejected", f"{name} returned {got}")
        return verdict, out
    want = [p for p in paths if accept_glob(p, inc, exc, eff_cs)]
    verdict = "accepts-some" if want else "accepts-none"
    if got_f[0] != "value":
        bad(f"filter_paths: {got_f[0]} without conflicting patterns", f"filter_paths: {got_f}")
    elif got_f[1] != want:
        it = iter(paths)
        sub = all(any(x == y for y in it) for x in got_f[1])
        clause = "filter_paths: result differs from the pathlib reference" if sub else \
            "filter_paths: result is not a sub-sequence of its input"
        bad(clause, f"filter_paths returned {got_f[1]}, reference {want}")
    if got_m[0] != "value":
        bad(f"match_any_paths: {got_m[0]} without conflicting patterns", f"match_any_paths: {got_m}")
    elif got_m[1] is not bool(want):
        bad("match_any_paths: differs from any() over the pathlib reference",
            f"match_any_paths returned {got_m[1]!r}, reference {bool(want)}")
    return verdict, out


# ------------------------------------------------------------------------------------------------
# work units (one per include/exclude configuration), run in forked workers
# ------------------------------------------------------------------------------------------------
_G = {}


def _events():
    if "events" not in _G:
        ds = event_descs()
        _G["events"] = [(d, make_event(d)) for d in ds]
    return _G["events"]


def _merge(dst, v):
    if v["fp"] not in dst:
        dst[v["fp"]] = v


def unit_handler(job):
    kind, inc, exc = job
    counts = {}
    viols = {}
    sample = None
    evs = _events()
    for cs in (False, True):
        if kind == "pattern":
            tables = None if conflict(inc, exc, cs) else {p: accept_glob(p, inc, exc, cs) for p in PATHS + ("",)}
        else:
            tables = regex_tables(inc, exc, cs)
        for igndir in (False, True):
            try:
                h = make_handler(kind, inc, exc, cs, igndir)
            except Exception as e:  # noqa: BLE001
                _merge(viols, dict(kind="dispatch-rule", fp=f"{kind}-handler: constructor raised {type(e).__name__}",
                                   msg=f"{kind} handler include={inc} exclude={exc} case_sensitive={cs}: {e!r}",
                                   prefix=[], harness="enum", case=handler_case(kind, evs[0][0], inc, exc, cs, igndir)))
                continue
            for desc, event in evs:
                exp, obs, v = judge_handler(kind, desc, inc, exc, cs, igndir, h, event, tables)
                counts[exp] = counts.get(exp, 0) + 1
                if v:
                    _merge(viols, v)
                elif sample is None and exp == "dispatch" and inc and exc and desc[2] and desc[1] and \
                        not accept_glob_or_regex(kind, desc[1], inc, exc, cs):
                    sample = dict(handler_case(kind, desc, inc, exc, cs, igndir), reference=exp, observed=obs,
                                  note="moved event dispatched through its dest_path only")
    return counts, viols, sample


def accept_glob_or_regex(kind, path, inc, exc, cs):
    if kind == "pattern":
        return accept_glob(path, inc, exc, cs)
    hit, ign = regex_tables(inc, exc, cs)
    return hit[path] and not ign[path]


def unit_base(_job):
    counts = {}
    viols = {}
    h = make_handler("base", None, None, None, None)
    for desc, event in _events():
        exp, obs, v = judge_handler("base", desc, None, None, None, None, h, event)
        counts[exp] = counts.get(exp, 0) + 1
        if v:
            _merge(viols, v)
    return counts, viols, None


def unit_filter(job):
    inc, exc, maxlen = job
    counts = {}
    viols = {}
    sample = None
    univ = PATHS + ("",)
    for n in range(maxlen + 1):
        for paths in itertools.product(univ, repeat=n):
            for cs in (True, False, "omitted"):
                verdict, vs = judge_filter(paths, inc, exc, cs)
                counts[verdict] = counts.get(verdict, 0) + 1
                for v in vs:
                    _merge(viols, v)
                if sample is None and not vs and verdict == "accepts-some" and n == 2 and inc and exc and \
                        len([p for p in paths if accept_glob(p, inc, exc, cs is not False)]) == 1:
                    sample = dict(filter_case(paths, inc, exc, cs), reference_result=[
                        p for p in paths if accept_glob(p, inc, exc, cs is not False)])
    return counts, viols, sample


def _unit(job):
    try:
        return dict(handler=unit_handler, base=unit_base, filter=unit_filter)[job[0]](job[1])
    except Exception as e:  # noqa: BLE001
        import traceback
        return {}, {"harness-error": dict(kind="harness-error", fp="harness-error", infra=True,
                                          msg=f"job {job}: {e!r}\n{traceback.format_exc()}")}, None


def setup(tier):
    wd.load()
    return [], None


def check_callback_set(ctx):
    """The recording subclasses must override every on_* callback the library knows."""
    ev = wd.mod("watchdog.events")
    have = sorted(n for n in dir(ev.FileSystemEventHandler) if n.startswith("on_"))
    if have != sorted(["on_any_event"] + CALLBACKS):
        ctx.add_violation(dict(kind="callback-set", fp="callback set of FileSystemEventHandler differs from the statement",
                               msg=f"FileSystemEventHandler has {have}, the statement's event types give "
                                   f"{sorted(['on_any_event'] + CALLBACKS)}", prefix=[], harness="enum", case=dict(part="callback-set")))
    missing = [c for c in CLASSES if not hasattr(ev, c)]
    extra = [n for n in dir(ev) if n.endswith("Event") and isinstance(getattr(ev, n), type)
             and n not in CLASSES and n not in ("FileSystemEvent", "FileSystemMovedEvent")]
    if missing or extra:
        ctx.add_violation(dict(kind="callback-set", fp="event classes differ from the enumerated ones",
                               msg=f"missing {missing}, not enumerated {extra}", prefix=[], harness="enum",
                               case=dict(part="callback-set")))


def run(ctx):
    wd.load()
    thorough = ctx.tier == "thorough"
    check_callback_set(ctx)
    _events()  # build before forking
    regs = REGEXES + ((EMPTY_ONLY,) if thorough else ())
    parts = [
        ("base-handler", [("base", None)]),
        ("pattern-handler", [("handler", ("pattern", i, e)) for i, e in configs(GLOBS, thorough)]),
        ("regex-handler", [("handler", ("regex", i, e)) for i, e in configs(regs, thorough)]),
        ("path-filters", [("filter", (i, e, 3 if thorough else 2)) for i, e in configs(GLOBS, thorough)]),
    ]
    mp = multiprocessing.get_context("fork")
    nev = len(_events())
    with mp.Pool(ctx.workers) as pool:
        for name, jobs in parts:
            counts = {}
            samples = []
            for c, viols, sample in pool.imap(_unit, jobs, chunksize=4):
                for k, n in c.items():
                    counts[k] = counts.get(k, 0) + n
                for v in viols.values():
                    ctx.add_violation(v)
                if sample and len(samples) < 1:
                    samples.append(sample)
            total = sum(counts.values())
            nontrivial = counts.get("dispatch", 0) + counts.get("accepts-some", 0)
            if name == "base-handler":
                samples = [dict(part="base-handler", event=list(_events()[0][0]),
                                reference=["on_any_event", CLASSES[_events()[0][0][0]][0]])]
            ctx.add_enum(name, total, nontrivial, samples,
                         extra=dict(reference_verdicts=dict(sorted(counts.items())), configurations=len(jobs),
                                    events=nev if name != "path-filters" else None))


def replay(rec):
    wd.load()
    case = rec["case"]
    part = case.get("part", "")
    tup = lambda x: None if x is None else tuple(x)  # noqa: E731
    fps = []
    if part.endswith("-handler"):
        kind = part[:-len("-handler")]
        d = case["event"]
        desc = (d[0], d[1], d[2], d[3])
        exp, obs, v = judge_handler(kind, desc, tup(case["include"]), tup(case["exclude"]), case["case_sensitive"],
                                    case["ignore_directories"])
        print("case:", case)
        print(f"reference verdict: {exp}; observed: {obs}")
        if v:
            print("VERDICT:", v["fp"], "-", v["msg"])
            fps.append(v["fp"])
    elif part == "filter":
        verdict, vs = judge_filter(tuple(case["paths"]), tup(case["include"]), tup(case["exclude"]),
                                   case["case_sensitive"])
        print("case:", case)
        print("reference verdict:", verdict)
        for v in vs:
            print("VERDICT:", v["fp"], "-", v["msg"])
            fps.append(v["fp"])
    else:
        class C:
            violations = {}

            def add_violation(self, v):
                self.violations[v["fp"]] = v
        c = C()
        check_callback_set(c)
        for v in c.violations.values():
            print("VERDICT:", v["fp"], "-", v["msg"])
            fps.append(v["fp"])
    if rec["fp"] in fps:
        print("VIOLATION property=C15 replay=<n/a>")
        return 1
    print("the recorded violation does not reproduce on this tree")
    return 0
