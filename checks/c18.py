"""C18 - tricks: debounced batches complete and ordered; one child at a time; stop ends all.

Three harness families over the real code under the deterministic scheduler:
 (a) `EventDebouncer` (interval 1.0 virtual s): feeder thread (<= 3 events, gaps from {0, i/2, i, 2i}), the
     debouncer thread, and stop() issued by main after quiescence / by a stopper thread at a scheduler-chosen
     moment / by main right after start(); optionally the first event is handed in by main right after start();
 (b) `AutoRestartTrick` over a simulated process table (`wdmc.procsim`): observer thread (<= 2 events through
     dispatch()), child lifetimes {forever, short}, reaction to the stop signal {exits, ignores until SIGKILL},
     restart_on_command_exit on/off, debounce on/off, stop() after quiescence or by a stopper thread;
 (c) `ShellCommandTrick` with wait_for_process / drop_during_process, <= 3 events, simulated command durations.
All oracles work on one totally ordered log of calls, returns, callback batches and process-table records.

Fingerprints name the root cause where the log shows it: the debouncer's condition variable is wrapped by a
logging proxy (is a notify() issued before the thread's first wait()?), `_restart_process` is bracketed by a
logging subclass (did two restarts, or stop() and a restart, overlap?).  Symptoms seen in an execution with such an
overlap share coarse fingerprints ("autorestart: stop() overlapping a restart in progress: ...", "autorestart:
overlapping restarts: ..."); the same symptoms without any overlap keep precise fingerprints of their own, so a
new defect that needs no overlap is never hidden behind a known one.
"""

from __future__ import annotations

import itertools

from wdmc import explore as ex
from wdmc import procsim, vsched, wd

LEVEL = "model_checking"
RULE = ("program = (family, configuration: event count and virtual gaps, child lifetimes / reaction to the stop signal, "
        "trick options, who calls stop() and when); for each program all schedules of its threads with <= bound "
        "deviations (preemptions at line level in event_debouncer.py, process_watcher.py, tricks/__init__.py and at "
        "shared-access instruction level in EventDebouncer.run/handle_event/stop, AutoRestartTrick._restart_process/"
        "_stop_process/_start_process/stop/on_any_event, ShellCommandTrick.is_process_running; every simulated "
        "Popen/poll/wait/kill is a scheduling point; (a): early timer expiry is a deviation, preemption bounding, "
        "delay bounding for the 4-thread programs with a stopper thread; (b): timers fire on time, virtual gaps are "
        "chosen so that events, stop(), watcher polls (0.1 s), debounce expiry (0.2 s) and kill_after polls coincide "
        "and are ordered by the scheduler, delay bounding; (c): preemption bounding, once with timers on time and "
        "once with early timer expiry as a deviation); a case is distinct/non-trivial by its observable outcome "
        "(batches, process-table history, liveness of helper threads)")
ASSUMPTIONS = [
    "child processes are simulated (wdmc.procsim): a signalled child that reacts dies at once; self-exit happens "
    "exactly at spawn time + lifetime on the virtual clock; a zombie accepts signals without effect, a reaped pid "
    "raises ProcessLookupError; pids are never reused",
    "(a) arrival time of an event = virtual time at which handle_event() was called (the append is never earlier); "
    "'handed in before stop()' is read as 'handle_event() called before stop() returned' (weakest reading)",
    "(a) an empty batch is not counted as a violation of the debouncer (the statement is silent)",
    "(b) 'restarts once per triggering event or batch' is demanded as: at most one spawn per trigger (event, or "
    "self-exit when enabled) beyond the initial one; every event handed in before stop() is followed by a spawn "
    "(exactly one inside its own dispatch() call when neither a debouncer nor a watcher thread exists); after a "
    "self-exit with restart_on_command_exit a child runs again once 0.3 virtual s have passed (watcher period 0.1 s)",
    "(b) timers fire on time (no early-expiry deviations): relative timing is covered by the explicit virtual "
    "gaps, which are chosen to coincide with watcher polls, debounce expiry and kill_after polls",
    "(c) only non-overlap is demanded, plus: the number of commands never exceeds the number of events, with "
    "wait_for_process every event runs the command, and with drop_during_process an event arriving when no command "
    "was ever started, or (timers-on-time variant only) >= 0.25 virtual s after the last one ended (watcher period "
    "0.1 s), runs the command",
    "a helper thread that has been signalled to stop but has not yet run to its end when stop() returns is reported "
    "under its own fingerprint (strict reading of 'all helper threads gone'); a watcher of an earlier child is "
    "labelled 'superseded ProcessWatcher'",
    "(b) in an execution in which two children were alive at once, the state after stop() (orphan child, its watcher) "
    "is a consequence and is not reported a second time",
    "the debouncer's Condition is wrapped by a logging proxy and AutoRestartTrick._restart_process by a logging "
    "subclass method (observation only; the library code objects are the ones executed and instrumented)",
]

I = 1.0          # debounce interval of family (a)
EPS = 1e-9
START_CLOCK = 1000.0   # Sched's default start_clock (all times in the logs are absolute virtual times)


# ==================================================================================================
# shared helpers
# ==================================================================================================
class _CondProxy:
    """Observation only: logs when the debouncer thread enters / leaves Condition.wait()."""

    def __init__(self, cond):
        self._c = cond

    def __enter__(self):
        return self._c.__enter__()

    def __exit__(self, *a):
        return self._c.__exit__(*a)

    def acquire(self, *a, **k):
        return self._c.acquire(*a, **k)

    def release(self):
        return self._c.release()

    def wait(self, timeout=None):
        s = vsched.S
        s.log.append(("dwait", timeout, s.clock))
        r = self._c.wait(timeout)
        s.log.append(("dwoke", bool(r), s.clock))
        return r

    def wait_for(self, predicate, timeout=None):
        s = vsched.S
        s.log.append(("dwait", timeout, s.clock))
        r = self._c.wait_for(predicate, timeout)
        s.log.append(("dwoke", bool(r), s.clock))
        return r

    def notify(self, n=1):
        s = vsched.S
        s.log.append(("dnotify", s.me().tid, s.clock))
        return self._c.notify(n)

    def notify_all(self):
        return self._c.notify_all()


_LOGGED = {}


def logged_debouncer_class():
    """Subclass of the real EventDebouncer whose condition variable is wrapped by the logging proxy."""
    if "cls" not in _LOGGED:
        base = wd.mod("watchdog.utils.event_debouncer").EventDebouncer

        class EventDebouncerObserved(base):
            def __init__(self, *a, **k):
                super().__init__(*a, **k)
                if hasattr(self, "_cond"):
                    self._cond = _CondProxy(self._cond)

        _LOGGED["cls"] = EventDebouncerObserved
    return _LOGGED["cls"]


def observed_trick_class():
    """Subclass of the real AutoRestartTrick that logs entry / exit of _restart_process (observation only)."""
    if "trick" not in _LOGGED:
        base = wd.mod("watchdog.tricks").AutoRestartTrick

        class AutoRestartTrickObserved(base):
            def _restart_process(self):
                s = vsched.S
                me = s.me()
                s.log.append(("rs_enter", role(me), me.tid))
                try:
                    return super()._restart_process()
                except Exception as e:  # noqa: BLE001 - ProcessWatcher.run swallows (and only logs) what its callback raises
                    s.log.append(("rs_exc", role(me), type(e).__name__, str(e)[:200]))
                    raise
                finally:
                    if not s.aborting:
                        s.log.append(("rs_exit", role(me), me.tid))

        _LOGGED["trick"] = AutoRestartTrickObserved
    return _LOGGED["trick"]


def role(vt):
    obj = vt.obj
    base = wd.mod("watchdog.utils").BaseThread
    if isinstance(obj, base):
        n = type(obj).__name__
        return "EventDebouncer" if n == "EventDebouncerObserved" else n
    return vt.name


def helpers_alive(s):
    """Library threads still alive: (role, already signalled to stop?).  A ProcessWatcher that watches a child
    which is not the most recently spawned one is labelled 'superseded ProcessWatcher'."""
    base = wd.mod("watchdog.utils").BaseThread
    tab = s.env.get("proctable")
    last = tab.children[-1].pid if tab is not None and tab.children else None
    out = []
    for t in s.live_threads():
        if isinstance(t.obj, base):
            ev = getattr(t.obj, "_stopped_event", None)
            r = role(t)
            if r == "ProcessWatcher" and getattr(getattr(t.obj, "popen_obj", None), "pid", last) != last:
                r = "superseded ProcessWatcher"
            out.append((r, bool(getattr(ev, "_flag", False))))
    return sorted(out)


def _notify_between(log, lo, hi, default):
    """Index of the debouncer notify() issued by the thread that logged entry `lo`, before entry `hi`."""
    if lo is None:
        return default
    tid = log[lo][-1]
    for i in range(lo + 1, hi if hi is not None else len(log)):
        if log[i][0] == "dnotify" and log[i][1] == tid:
            return i
    return default


def _first(log, kind, start=0):
    for i in range(start, len(log)):
        if log[i][0] == kind:
            return i
    return None


class C18Harness(ex.Harness):
    family = "?"

    def outcome(self, res):
        return repr(([e for e in res.log if e[0] not in ("dwait", "dwoke", "dnotify")], res.abort and res.abort[0],
                     [(e[0], e[1]) for e in res.errors]))

    def common(self, res, out, deadlock_classifier, ctx=None, horizon_fp=None):
        # ctx: root-cause prefix ("<family>: <overlap>: "); with it all exceptions share one fingerprint
        """Verdicts every family shares; the family decides what a deadlock means."""
        fam = self.family
        if res.harness_error:
            out.append(dict(kind="harness-error", msg=f"{res.harness_error[0]}: {res.harness_error[1]}\n"
                            f"{res.harness_error[2]}", fp=f"harness-error {res.harness_error[0]}", infra=True))
        log = res.log
        if res.abort:
            kind, info = res.abort
            if kind == "deadlock":
                fp = deadlock_classifier(info, log)
                if fp is None:
                    where = sorted({f"{ex._role(n)}@{ex._where(b, st)}" for n, b, st in info if n != "Main"})
                    fp = f"{fam}: deadlock " + " / ".join(where)
                out.append(dict(kind="deadlock", fp=fp, msg=f"deadlock: {info}; program={self.name}; log={log}"))
            elif kind == "horizon":
                if any(e[0] == "runaway" for e in log):
                    horizon_fp = f"{fam}: runaway - more child processes spawned than any trigger count allows"
                out.append(dict(kind="horizon", fp=horizon_fp or f"{fam}: step/time horizon exceeded",
                                msg=f"horizon exceeded: {info}; program={self.name}; log={log[-40:]}"))
        for name, et, msg, funcs in res.errors:
            top = next((f for f in reversed(funcs) if not f.startswith("vsched.py")), "?")
            out.append(dict(kind="thread-error", fp=(ctx + "exception in a trick call or helper thread") if ctx else f"{fam}: thread died with {et} in {top}",
                            msg=f"thread {name} died: {et}: {msg} at {funcs[-5:]}; program={self.name}; log={log}"))
        for e in log:
            if e[0] == "rs_exc" and e[1] in ("ProcessWatcher", "EventDebouncer"):
                out.append(dict(kind="callback-raised",
                                fp=(ctx + "exception in a trick call or helper thread") if ctx
                                else f"{fam}: restart callback of the {e[1]} thread raised {e[2]} ({e[3][:60]})",
                                msg=f"_restart_process() called by the {e[1]} thread raised {e[2]}: {e[3]}; "
                                    f"program={self.name}; log={log}"))
            elif e[0] == "exc":
                out.append(dict(kind="call-raised", fp=(ctx + "exception in a trick call or helper thread") if ctx
                                else f"{fam}: {e[1]} raised {e[2]} ({e[3][:60]})",
                                msg=f"{e[1]} raised {e[2]}: {e[3]}; program={self.name}; log={log}"))


def _guard(s, what, fn, *a):
    """Library call made by a harness thread: an exception is an observation, not a harness error."""
    try:
        return fn(*a)
    except vsched.Abort:
        raise
    except Exception as e:  # noqa: BLE001
        s.log.append(("exc", what, type(e).__name__, str(e)[:200]))
        return None


# ==================================================================================================
# (a) EventDebouncer
# ==================================================================================================
class DebHarness(C18Harness):
    family = "debouncer"
    sched_kwargs = dict(max_steps=8000)

    def __init__(self, gaps, mode, main_first=False):
        self.gaps = tuple(gaps)          # gap before event k (k >= 1: after event k-1); gaps[0] before the first
        self.mode = tuple(mode)          # ("quiesce",) | ("stopper", delay) | ("stopnow",)
        self.main_first = main_first     # event 0 is handed in by main right after start()
        self.name = (f"deb ev={','.join(map(str, self.gaps)) or '-'} stop={':'.join(map(str, self.mode))}"
                     + (" mainfirst" if main_first else ""))
        if self.mode[0] == "stopper":    # 4 threads: delay bounding (every departure from the default costs 1)
            self.sched_kwargs = dict(max_steps=8000, switch_cost=1)

    def body(self, s):
        events = wd.mod("watchdog.events")
        T = vsched.vthreading.Thread
        L = s.log.append
        n = len(self.gaps)
        evs = [events.FileCreatedEvent(f"/w/e{k}") for k in range(n)]
        ids = {id(e): k for k, e in enumerate(evs)}

        def cb(batch):
            ks = tuple(ids.get(id(e), "?") for e in batch)
            L(("cb", ks, s.clock))
            s.point("in-callback")
            L(("cbe", ks, s.clock))

        deb = logged_debouncer_class()(I, cb)

        def hand(k):
            L(("hand", k, s.clock, s.me().tid))
            _guard(s, "handle_event()", deb.handle_event, evs[k])
            L(("handed", k, s.clock))

        def feeder(first):
            for k in range(first, n):
                if self.gaps[k]:
                    vsched.vtime.sleep(self.gaps[k])
                hand(k)

        def do_stop():
            L(("stop_call", s.clock, s.me().tid))
            _guard(s, "stop()", deb.stop)
            L(("stop_ret", s.clock))

        def stopper():
            if self.mode[1]:
                vsched.vtime.sleep(self.mode[1])
            do_stop()

        s.lib_creation = True
        deb.start()
        s.lib_creation = False
        first = 0
        if self.main_first and n:
            hand(0)
            first = 1
        ts = [T(target=feeder, args=(first,), name="feeder")]
        if self.mode[0] == "stopper":
            ts.append(T(target=stopper, name="stopper"))
        for t in ts:
            t.start()
        if self.mode[0] == "stopnow":
            do_stop()
        for t in ts:
            t.join()
        if self.mode[0] == "quiesce":
            s.idle("drain")
            L(("quiescent", s.clock))
            do_stop()
        deb.join()
        L(("joined", s.clock, deb.is_alive()))
        return True

    def check(self, res):
        out = []
        log = res.log
        n = len(self.gaps)

        def v(kind, fp, msg):
            out.append(dict(kind=kind, fp=fp, msg=f"{msg}; program={self.name}; log={log}"))

        hand_i, hand_t, handed_i = {}, {}, {}
        cbs = []
        stop_call = stop_ret = quiescent = first_wait = None
        for i, e in enumerate(log):
            k = e[0]
            if k == "hand":
                hand_i[e[1]], hand_t[e[1]] = i, e[2]
            elif k == "handed":
                handed_i[e[1]] = i
            elif k == "cb":
                cbs.append((i, e[1], e[2]))
            elif k == "stop_call" and stop_call is None:
                stop_call = i
            elif k == "stop_ret" and stop_ret is None:
                stop_ret = i
            elif k == "quiescent":
                quiescent = i
            elif k == "dwait" and first_wait is None:
                first_wait = i

        def classify_deadlock(info, log):
            stuck = any("EventDebouncer.run" in " ".join(st) and str(b).startswith("('cond.wait'") for _, b, st in info)
            if stuck and stop_ret is not None:
                if first_wait is None or first_wait > _notify_between(log, stop_call, stop_ret, stop_call):
                    return "debouncer: stop() before the first wait() is lost, thread never exits (deadlock)"
                return "debouncer: thread does not exit after stop() (deadlock)"
            return None

        self.common(res, out, classify_deadlock)

        seen = {}
        flat = []
        for i, ks, t in cbs:
            for k in ks:
                if k == "?":
                    v("unknown", "debouncer: an object that was never handed in is delivered", f"batch {ks}")
                    continue
                if k in seen:
                    v("duplicate", "debouncer: event delivered twice", f"event {k} delivered at log index {seen[k]} and {i}")
                    continue
                seen[k] = i
                flat.append(k)
                if k not in hand_i or hand_i[k] > i:
                    v("premature", "debouncer: event delivered before it was handed in", f"event {k}")
            if stop_ret is not None and i > stop_ret:
                v("after-stop", "debouncer: callback invoked after stop() returned",
                  f"batch {ks} at index {i}, stop() returned at index {stop_ret}")
            for k, hi in handed_i.items():
                if hi < i and t < hand_t[k] + I - EPS:
                    v("early", "debouncer: batch delivered before the debounce interval passed (early batch)",
                      f"batch {ks} delivered at {t} although event {k} arrived at {hand_t[k]} (interval {I})")
                    break
        if flat != sorted(flat):
            v("order", "debouncer: events delivered out of arrival order", f"delivery order {flat}")
        if quiescent is not None and self.mode[0] == "quiesce":
            missing = [k for k in range(n) if k in handed_i and handed_i[k] < quiescent
                       and not (k in seen and seen[k] < quiescent)]
            if missing:
                if all(first_wait is None or _notify_between(log, hand_i[k], handed_i[k], handed_i[k]) < first_wait
                       for k in missing):
                    v("lost", "debouncer: event handed in before the first wait() is never delivered",
                      f"events {missing} undelivered at quiescence (all threads blocked, no timer pending)")
                else:
                    v("lost", "debouncer: event never delivered although the interval passed (lost wake-up)",
                      f"events {missing} undelivered at quiescence (all threads blocked, no timer pending)")
        for e in log:
            if e[0] == "joined" and e[2]:
                v("alive", "debouncer: thread alive after stop() and join()", "is_alive() after join()")
        if not res.abort and not res.harness_error and res.leaked:
            v("leak", "debouncer: thread left behind at the end", f"{res.leaked}")
        return out


def deb_harnesses(tier):
    hs = []
    G = (0.0, I / 2, I, 2 * I)
    progs = [()]
    progs += [(0.0,)]
    progs += [(0.0, g) for g in G]
    if tier == "quick":
        progs += [(0.0, g, g) for g in G]
    else:
        progs += [(0.0, g, h) for g in G for h in G]
    modes = [("quiesce",), ("stopnow",), ("stopper", 0.0), ("stopper", I / 2), ("stopper", I), ("stopper", 2.5 * I)]
    for p in progs:
        for m in modes:
            if not p and m[0] == "stopper" and m[1] > 0:
                continue
            if len(p) == 3 and m[0] == "stopper" and m[1] not in (0.0, I):
                continue
            hs.append(DebHarness(p, m))
            if p and (len(p) < 3 or m[0] != "stopper"):
                hs.append(DebHarness(p, m, main_first=True))
    return hs


# ==================================================================================================
# (b) AutoRestartTrick
# ==================================================================================================
SHORT = 0.15       # short child lifetime: the watcher (period 0.1) notices the exit at spawn + 0.2
DEB = 0.2          # debounce interval of family (b): a batch of an event at t fires at t + 0.2
KA = 0.5           # kill_after: two poll rounds of 0.25 before SIGKILL
HORIZON = 1.6      # virtual seconds after start at which a quiescence-mode program is inspected (all activity ends by 1.4)
MARGIN = 0.3
MAX_CHILDREN = 12  # runaway guard of (b): no program has more than 5 triggers
AFTER = 1.0        # virtual seconds the program is observed after stop() returned


class ARHarness(C18Harness):
    family = "autorestart"
    sched_kwargs = dict(max_steps=12000, switch_cost=1, timer_deviations=False)

    def __init__(self, *, roce, deb, life, ign, gaps, mode, ka=KA):
        self.roce, self.deb, self.life, self.ign = roce, deb, tuple(life), bool(ign)
        self.gaps, self.mode, self.ka = tuple(gaps), tuple(mode), ka
        lf = "/".join("inf" if x is None else str(x) for x in self.life)
        self.name = (f"ar roce={int(roce)} deb={deb} life={lf} ign={int(self.ign)} ka={ka} "
                     f"ev={','.join(map(str, self.gaps)) or '-'} stop={':'.join(map(str, self.mode))}")

    def body(self, s):
        tricks = wd.mod("watchdog.tricks")
        events = wd.mod("watchdog.events")
        T = vsched.vthreading.Thread
        L = s.log.append
        tab = procsim.Table(s, s.log, lifetimes=self.life, ignores=(self.ign,), role=role, max_children=MAX_CHILDREN)
        s.env["proctable"] = tab
        trick = observed_trick_class()(["srv", "--run"], patterns=["*.py"], kill_after=self.ka,
                                        debounce_interval_seconds=self.deb, restart_on_command_exit=self.roce)
        evs = [events.FileModifiedEvent(f"/w/m{k}.py") for k in range(len(self.gaps))]

        def snapshot():
            return tuple(tab.alive()), tuple(helpers_alive(s))

        def observer():
            for k, g in enumerate(self.gaps):
                if g:
                    vsched.vtime.sleep(g)
                L(("ev_call", k, s.clock, s.me().tid))
                _guard(s, "dispatch()", trick.dispatch, evs[k])
                L(("ev_ret", k, s.clock))

        def do_stop():
            L(("stop_call", s.clock, s.me().tid))
            _guard(s, "stop()", trick.stop)
            L(("stop_ret", s.clock) + snapshot())

        def stopper():
            if self.mode[1]:
                vsched.vtime.sleep(self.mode[1])
            do_stop()

        s.lib_creation = True
        L(("start_call", s.clock))
        _guard(s, "start()", trick.start)
        L(("start_ret", s.clock))
        ts = [T(target=observer, name="observer")]
        if self.mode[0] == "stopper":
            ts.append(T(target=stopper, name="stopper"))
        for t in ts:
            t.start()
        for t in ts:
            t.join()
        if self.mode[0] == "quiesce":
            s.idle("drain", until=s.start_clock + HORIZON)
            L(("quiescent", s.clock) + snapshot())
            do_stop()
        s.idle("drain", until=s.clock + AFTER)
        L(("end", s.clock) + snapshot())
        return True

    # ---------------------------------------------------------------------------------------------
    def check(self, res):
        out = []
        log = res.log
        n = len(log)
        timed = not self.sched_kwargs.get("timer_deviations", True)

        def v(kind, fp, msg):
            out.append(dict(kind=kind, fp=fp, msg=f"{msg}; program={self.name}; log={log}"))

        stop_call = _first(log, "stop_call")
        stop_ret = _first(log, "stop_ret")
        quiescent = _first(log, "quiescent")
        first_wait = _first(log, "dwait")

        # ---- context: which calls overlapped (root-cause part of the fingerprints) ---------------------
        rs, open_rs = [], {}
        for i, e in enumerate(log):
            if e[0] == "rs_enter":
                open_rs[e[2]] = (i, e[1])
            elif e[0] == "rs_exit" and e[2] in open_rs:
                st, r = open_rs.pop(e[2])
                rs.append((st, i, r, e[2]))
        for tid, (st, r) in open_rs.items():
            rs.append((st, n, r, tid))
        stop_overlap = False
        if stop_call is not None:
            lo, hi, stid = stop_call, (stop_ret if stop_ret is not None else n), log[stop_call][-1]
            stop_overlap = any(a < hi and b > lo and tid != stid for a, b, _, tid in rs)
        pairs = [{x[2], y[2]} for x in rs for y in rs if x[3] != y[3] and x[0] < y[1] and y[0] < x[1]]
        restart_overlap = bool(pairs)
        exit_vs_event = any("ProcessWatcher" in p and p & {"observer", "EventDebouncer"} for p in pairs)
        # root-cause prefix: symptoms seen in an execution with overlapping calls share coarse fingerprints
        P_RS = "autorestart: overlapping restarts: "
        ctx = ("autorestart: stop() overlapping a restart in progress: " if stop_overlap
               else (P_RS if restart_overlap else None))

        def fpx(precise, coarse, only_rs=False):
            c = (P_RS if restart_overlap else None) if only_rs else ctx
            return c + coarse if c else "autorestart: " + precise

        def classify_deadlock(info, log):
            stuck = any("EventDebouncer.run" in " ".join(st) and str(b).startswith("('cond.wait'") for _, b, st in info)
            in_stop = any("AutoRestartTrick.stop" in " ".join(st) for _, b, st in info)
            if stuck and in_stop and stop_call is not None and (
                    first_wait is None or first_wait > _notify_between(log, stop_call, stop_ret, stop_call)):
                return ("autorestart: stop() hangs joining the debouncer whose stop() came before its first wait() "
                        "(deadlock)")
            return None

        hfp = None
        if stop_call is not None and stop_ret is None:
            hfp = fpx("stop() does not return (still blocked at the step/time horizon)", "stop() never returns")
        self.common(res, out, classify_deadlock, ctx, hfp)

        # ---- process-table history ---------------------------------------------------------------
        spawns = []       # dict(pid, i, t, deadline, by, kill_i, kill_t)
        by_pid = {}
        for i, e in enumerate(log):
            if e[0] == "spawn":
                c = dict(pid=e[1], i=i, t=e[2], deadline=e[3], by=e[4], kill_i=None, kill_t=None)
                spawns.append(c)
                by_pid[e[1]] = c
            elif e[0] == "signal" and e[4] == "killed":
                by_pid[e[1]]["kill_i"] = i
                by_pid[e[1]]["kill_t"] = e[3]

        def alive_at(c, i, t):
            """child c alive at log position i (virtual time t)?"""
            if c["i"] >= i:
                return False
            if c["kill_i"] is not None and c["kill_i"] < i:
                return False
            return c["deadline"] is None or t < c["deadline"]

        def self_exited(c, t):
            return c["deadline"] is not None and c["deadline"] <= t and (c["kill_t"] is None)

        two = False
        for c in spawns:
            others = [o for o in spawns if alive_at(o, c["i"], c["t"])]
            if others:
                o = others[-1]
                pair = {o["by"], c["by"]}
                if exit_vs_event:
                    fp = "autorestart: concurrent restarts (self-exit vs event) leave two children alive"
                else:
                    fp = fpx(f"two children alive at once (spawned by {' and '.join(sorted(pair))})",
                             "two children alive at once")
                v("two-children", fp, f"child {c['pid']} spawned at index {c['i']} (t={c['t']}) by {c['by']} while "
                                      f"child {o['pid']} (spawned by {o['by']}) is alive")
                two = True
                break

        end_t = START_CLOCK + res.clock
        ev_calls = {e[1]: i for i, e in enumerate(log) if e[0] == "ev_call"}
        ev_rets = {e[1]: i for i, e in enumerate(log) if e[0] == "ev_ret"}
        n_ev = len(ev_calls)
        x_self = sum(1 for c in spawns if self_exited(c, end_t)) if self.roce else 0
        started = _first(log, "start_ret") is not None
        if started and len(spawns) > 1 + n_ev + x_self:
            v("too-many", fpx("more restarts than triggers (events + self-exits)", "more restarts than triggers", True),
              f"{len(spawns)} spawns for {n_ev} events and {x_self} self-exits")
        if started and not spawns:
            v("no-child", "autorestart: start() did not start a child", "no spawn")

        # ---- before stop: every trigger restarts ----------------------------------------------------
        limit = quiescent
        if limit is not None and not res.abort:
            plain = not self.deb and not self.roce
            for k, ci in sorted(ev_calls.items()):
                if ci > limit:
                    continue
                ri = ev_rets.get(k)
                if plain:
                    inside = [c for c in spawns if ci < c["i"] < (ri if ri is not None else limit)]
                    if len(inside) != 1:
                        v("restart-count", "autorestart: an event did not restart the child exactly once",
                          f"event {k}: {len(inside)} spawns inside its dispatch() call")
                elif not any(ci < c["i"] < limit for c in spawns):
                    if self.deb and (first_wait is None or _notify_between(log, ci, ri, ri if ri is not None else ci)
                                     < first_wait):
                        v("lost-trigger", "autorestart: debounced event handed in before the debouncer's first wait() "
                                          "never restarts the child", f"event {k} was followed by no spawn until quiescence")
                    else:
                        v("lost-trigger", fpx("an event never restarted the child", "child not restarted", True),
                          f"event {k} was followed by no spawn until quiescence")
            q = log[quiescent]
            alive_q = q[2]
            if spawns and not alive_q:
                last = spawns[-1]
                if last["kill_i"] is not None:
                    v("no-child", fpx("child killed by a restart but no new child started", "child not restarted", True),
                      f"child {last['pid']} was killed at index {last['kill_i']}, no later spawn, nothing runs at quiescence")
                elif self.roce and timed and last["deadline"] is not None and last["deadline"] <= q[1] - MARGIN:
                    v("no-child", fpx("child exited by itself and was never restarted", "child not restarted", True),
                      f"child {last['pid']} exited at {last['deadline']}, nothing runs at quiescence t={q[1]}")

        # ---- after stop (consequences of an earlier two-children violation are not reported again) -------
        if stop_ret is not None and not two:
            e = log[stop_ret]
            alive_s, helpers_s = e[2], e[3]
            late = [c for c in spawns if c["i"] > stop_ret]
            endi = _first(log, "end")
            alive_e, helpers_e = (log[endi][2], log[endi][3]) if endi is not None else ((), ())
            if late:
                v("spawn-after-stop", fpx("child spawned after stop() returned", "child alive or spawned after stop() returned"),
                  f"child {late[0]['pid']} spawned at index {late[0]['i']} by {late[0]['by']}, stop() returned at "
                  f"{stop_ret}; alive at the end: {alive_e}")
            elif alive_e:
                v("alive-at-end", fpx("child still alive 1 s after stop() returned", "child alive or spawned after stop() returned"),
                  f"children {alive_e} alive at the end")
            elif alive_s:
                v("alive-after-stop", fpx("child alive when stop() returns", "child alive or spawned after stop() returned"),
                  f"children {alive_s} alive at stop() return")
            if helpers_e:
                for r in sorted({r for r, _ in helpers_e}):
                    v("helper-at-end", fpx(f"{r} thread still alive 1 s after stop() returned",
                                           "helper thread alive after stop() returned"),
                      f"helpers alive at the end: {helpers_e}")
            else:
                for r, signalled in sorted(set(helpers_s)):
                    v("helper-at-stop", fpx(f"{r} thread still alive when stop() returns "
                                            f"({'already signalled to stop' if signalled else 'not signalled to stop'})",
                                            "helper thread alive after stop() returned"),
                      f"helpers alive at stop() return: {helpers_s}")
        return out


def ar_harnesses(tier):
    hs = []
    quick = tier == "quick"
    lifes = [(None,), (SHORT, None), (SHORT, SHORT, None)]
    gapsets = [(), (0.0,), (0.2,), (0.5,), (0.0, 0.0), (0.0, 0.2), (0.2, 0.2), (0.2, 0.0), (0.0, 0.5)]
    modes = [("quiesce",), ("stopper", 0.0), ("stopper", 0.2), ("stopper", 0.4)]
    for roce, deb, life, ign, gaps, mode in itertools.product((True, False), (0, DEB), lifes, (False, True),
                                                              gapsets, modes):
        if life == (SHORT, SHORT, None) and not roce:
            continue                     # without restart-on-exit a second short child adds nothing
        if not roce and life != (None,) and ign:
            continue
        h = ARHarness(roce=roce, deb=deb, life=life, ign=ign, gaps=gaps, mode=mode)
        if quick and not _core(h):
            continue
        hs.append(h)
    # kill_after = 0: SIGKILL follows the stop signal at once
    for roce in (True, False):
        for mode in (("quiesce",), ("stopper", 0.2)):
            hs.append(ARHarness(roce=roce, deb=0, life=(SHORT, None) if roce else (None,), ign=True, gaps=(0.2,),
                                mode=mode, ka=0))
    return hs


# ==================================================================================================
# (c) ShellCommandTrick
# ==================================================================================================
class SCHarness(C18Harness):
    family = "shellcommand"
    sched_kwargs = dict(max_steps=30000, switch_cost=1, timer_deviations=False)

    def __init__(self, *, wait, drop, durs, gaps, early=False):
        self.wait, self.drop, self.durs, self.gaps, self.early = wait, drop, tuple(durs), tuple(gaps), early
        self.name = (f"sc wait={int(wait)} drop={int(drop)} dur={'/'.join(map(str, self.durs))} "
                     f"ev={','.join(map(str, self.gaps))}" + (" early-timers" if early else ""))
        # few threads: preemption bounding; `early`: timers may expire early as a deviation
        self.sched_kwargs = dict(max_steps=30000, switch_cost=0, timer_deviations=early)

    def body(self, s):
        tricks = wd.mod("watchdog.tricks")
        events = wd.mod("watchdog.events")
        T = vsched.vthreading.Thread
        L = s.log.append
        tab = procsim.Table(s, s.log, lifetimes=self.durs, ignores=(False,), role=role,
                            max_children=len(self.gaps) + 3)
        s.env["proctable"] = tab
        trick = tricks.ShellCommandTrick("run ${watch_src_path}", patterns=["*.py"],
                                         wait_for_process=self.wait, drop_during_process=self.drop)
        evs = [events.FileModifiedEvent(f"/w/m{k}.py") for k in range(len(self.gaps))]

        def observer():
            for k, g in enumerate(self.gaps):
                if g:
                    vsched.vtime.sleep(g)
                L(("ev_call", k, s.clock))
                _guard(s, "dispatch()", trick.dispatch, evs[k])
                L(("ev_ret", k, s.clock))

        s.lib_creation = True
        t = T(target=observer, name="observer")
        t.start()
        t.join()
        s.idle("drain")     # every command is finite: all watchers end by themselves (else: step horizon)
        L(("end", s.clock, tuple(tab.alive()), tuple(helpers_alive(s))))
        return True

    def check(self, res):
        out = []
        log = res.log

        def v(kind, fp, msg):
            out.append(dict(kind=kind, fp=fp, msg=f"{msg}; program={self.name}; log={log}"))

        self.common(res, out, lambda info, log: None)
        spawns = [dict(pid=e[1], i=i, t=e[2], deadline=e[3]) for i, e in enumerate(log) if e[0] == "spawn"]
        opt = "+".join(x for x, on in (("wait", self.wait), ("drop", self.drop)) if on) or "plain"
        if self.wait or self.drop:
            for c in spawns:
                for o in spawns:
                    if o["i"] < c["i"] and (o["deadline"] is None or c["t"] < o["deadline"]):
                        v("overlap", f"shellcommand({opt}): command started while another one is running",
                          f"command {c['pid']} started at t={c['t']} while {o['pid']} runs until {o['deadline']}")
                        break
        ev_calls = {e[1]: (i, e[2]) for i, e in enumerate(log) if e[0] == "ev_call"}
        ev_rets = {e[1]: (i, e[2]) for i, e in enumerate(log) if e[0] == "ev_ret"}
        if len(spawns) > len(ev_calls):
            v("too-many", f"shellcommand({opt}): more commands than events", f"{len(spawns)} commands, {len(ev_calls)} events")
        if not res.abort:
            for k, (ci, ct) in sorted(ev_calls.items()):
                if k not in ev_rets:
                    continue
                ri, rt = ev_rets[k]
                inside = [c for c in spawns if ci < c["i"] < ri]
                before = [c for c in spawns if c["i"] < ci]
                if not self.drop:
                    if len(inside) != 1:
                        v("not-run", f"shellcommand({opt}): an event did not run the command exactly once",
                          f"event {k}: {len(inside)} commands started inside its dispatch() call")
                    elif self.wait and inside[0]["deadline"] is not None and rt < inside[0]["deadline"] - EPS:
                        v("no-wait", f"shellcommand({opt}): dispatch returned before the command ended",
                          f"event {k}: returned at {rt}, command ends at {inside[0]['deadline']}")
                else:
                    must = (not before) if self.early else all(
                        c["deadline"] is not None and c["deadline"] <= ct - 0.25 for c in before)
                    if must and len(inside) != 1:
                        v("dropped", "shellcommand(drop): event dropped although no command was running",
                          f"event {k} at t={ct}: earlier commands ended at {[c['deadline'] for c in before]}, "
                          f"{len(inside)} commands started")
                    elif len(inside) > 1:
                        v("not-run", f"shellcommand({opt}): an event started more than one command", f"event {k}")
            endi = _first(log, "end")
            if endi is not None:
                e = log[endi]
                if e[3]:
                    v("helper-at-end", "shellcommand: watcher thread alive long after the last command ended",
                      f"helpers alive at the end: {e[3]}")
        return out


def sc_harnesses(tier):
    hs = []
    quick = tier == "quick"
    G = (0.0, 0.15, 0.25, 0.3)
    progs = [(0.0,)] + [(0.0, g) for g in G]
    progs += [(0.0, g, g) for g in G] if quick else [(0.0, g, h) for g in G for h in G]
    for wait, drop in ((True, False), (False, True), (True, True), (False, False)):
        for durs in ((0.25,), (0.25, 0.05)):
            for p in progs:
                if not (wait or drop) and (len(p) != 2 or durs != (0.25,)):
                    continue
                if durs == (0.25, 0.05) and len(p) < 2:
                    continue
                hs.append(SCHarness(wait=wait, drop=drop, durs=durs, gaps=p))
                if len(p) <= 2 or not quick:
                    hs.append(SCHarness(wait=wait, drop=drop, durs=durs, gaps=p, early=True))
    return hs


# ==================================================================================================
def setup(tier):
    wd.load()
    tricks = wd.mod("watchdog.tricks")
    edm = wd.mod("watchdog.utils.event_debouncer")
    pwm = wd.mod("watchdog.utils.process_watcher")
    utils = wd.mod("watchdog.utils")
    seam = procsim.install(tricks)
    # the trick creates its debouncer itself: give it the observed subclass (same code objects)
    tricks.EventDebouncer = logged_debouncer_class()
    D = edm.EventDebouncer
    A = tricks.AutoRestartTrick
    Sh = tricks.ShellCommandTrick
    hot = [D.run, D.handle_event, D.stop]
    for cls, names in ((A, ("_restart_process", "_stop_process", "_start_process", "stop", "on_any_event")),
                       (Sh, ("is_process_running",))):
        for nm in names:
            f = getattr(cls, nm, None)
            if f is not None:
                hot.append(getattr(f, "__wrapped__", f))   # @echo_events wraps on_any_event
    desc = vsched.instrument(
        line_modules=[edm, pwm, tricks, utils.BaseThread],
        instr_functions=hot,
        exclude=("BaseThread.__init__", "BaseThread.stopped_event", "Trick.", "LoggerTrick.",
                 "echo.<locals>.wrapped", "EventDebouncer.__init__", "ProcessWatcher.__init__",
                 "AutoRestartTrick.__init__", "ShellCommandTrick.__init__"))
    desc["seams"] = seam
    hs = deb_harnesses(tier) + ar_harnesses(tier) + sc_harnesses(tier)
    names = [h.name for h in hs]
    assert len(set(names)) == len(names), "harness names must be unique"
    return hs, desc


def _core(h):
    """(b) programs of the quick tier (<= 1 event; the 'ignores the stop signal' variants only around t=0.2)."""
    return (len(h.gaps) <= 1 and h.life in ((None,), (SHORT, None))
            and (not h.ign or ((h.mode[0] == "quiesce" or h.mode[1] == 0.2) and h.gaps == (0.2,))))


def _deep_quick(h):
    """The (b) programs that get deviation bound 2 already in the quick tier."""
    if h.ign or h.ka != KA or len(h.gaps) > 1:
        return False
    if not h.deb and h.mode == ("quiesce",):
        return True
    return ((not h.roce and h.deb and h.life == (None,) and h.gaps == (0.0,) and h.mode[0] == "quiesce")
            or (not h.roce and not h.deb and h.life == (None,) and h.gaps == (0.0,) and h.mode == ("stopper", 0.0)))


def run(ctx):
    hs, ctx.instrumented = setup(ctx.tier)
    quick = ctx.tier == "quick"
    jobs = []
    for h in hs:
        if isinstance(h, DebHarness):
            b = 1 if quick and len(h.gaps) == 3 else 2
        elif isinstance(h, ARHarness):
            if quick:
                b = 2 if _deep_quick(h) else 1
            else:   # thorough: bound 2 for the <= 1-event programs with at most one short-lived child
                # (ignoring children: only the core ones); everything else at bound 1
                b = 2 if (len(h.gaps) <= 1 and len(h.life) <= 2 and (not h.ign or _core(h) or h.ka != KA)) else 1
        else:
            b = 2 if quick else 3
        jobs.append((h, b))
    sts = ctx.explore_many(jobs, cap=4_000_000 if quick else 80_000_000)
    # the runner keeps the first witness per fingerprint; report the one with the fewest deviations instead
    for st in sts:
        for fp, v in st.violations.items():
            old = ctx.violations.get(fp)
            if old is not None and (v["cost"], len(v["prefix"])) < (old["cost"], len(old["prefix"])):
                ctx.violations[fp] = v
