"""C20 - the Windows (ReadDirectoryChangesW) and macOS (FSEvents) translation layers meet the C01/C03
contract on well-formed native input; the two binary buffer decoders return what was encoded.

Part W: the real WindowsApiEmitter behind a fake kernel32 (wdmc/winsim.py): every operation history is
        performed with real syscalls on a real scratch tree, rendered into FILE_NOTIFY_INFORMATION records
        by a documented-semantics simulator, the record sequence is cut into batches in every possible
        way, each batch is encoded into the real byte layout and returned by the fake ReadDirectoryChangesW
        to one `emitter.queue_events()` call (real read_events / read_directory_changes / _parse_event_buffer).
Part M: the real FSEventsEmitter behind a fake `_watchdog_fsevents` (wdmc/macsim.py): the same histories
        rendered into per-(path, inode) items (flags OR-ed within a batch), every cut, each batch handed to
        `emitter.queue_events(timeout, [NativeEvent, ...])`.
Part D: exhaustive encode/decode comparison for winapi._parse_event_buffer and Inotify._parse_event_buffer.
"""

from __future__ import annotations

import itertools
import os
import queue as realqueue
import shutil
import struct
import time

from wdmc import fsops, macsim, wd, winsim
from wdmc.fsops import inside, parent

LEVEL = "model_checking"
RULE = (
    "Parts W/M: for every initial tree over the fsops universe with <= 2 entries and every burst of 1..2 (quick) / 1..3 "
    "(thorough) operations, and (thorough) every tree with <= 3 entries and every burst of 1..2 operations, of the C01 "
    "alphabet (fsops.bursts) that respects the directory pacing condition [the full product trees <= 3 x bursts <= 3 is "
    "behind the environment switch C20_FULL=1: ~13 min on 16 idle cores] (plus every such burst of <= 2 operations ending in the deletion of the watched "
    "root): render the operations into the native notification sequence (W: variants parent-MODIFIED off/on x "
    "cross-directory rename as OLD+NEW / REMOVED+ADDED, recursive and non-recursive watch; parent-MODIFIED on only for "
    "bursts <= 2; M: coalesced item placed at its last / first change, flags of earlier batches repeated or not, recursive and non-recursive watch, "
    "suppress_history off/on), enumerate EVERY cut of that sequence into batches (all 2^(n-1) "
    "cuts for n <= 12 records, else all cuts with <= 3 cut points - reported per part) x two delivery modes (all batches after "
    "the last operation / each batch right after the operation that produced its last record; identical schedules are "
    "run once); one execution = fresh scratch tree + fresh real emitter + the schedule; oracles: C01 replay equality, "
    "per-batch translation contract (rename halves in one batch = one moved event with both paths + synthetic moved "
    "events for the descendants present at delivery, added/arrived = created (+ synthetic created), removed/departed = "
    "deleted, modified = modified, nothing unjustified), non-recursive FSEvents never below the direct children, root "
    "deletion = exactly one final DirDeletedEvent(root) and a stopped emitter. An execution is non-trivial when the "
    "emitter queued at least one event; distinct = distinct (relative) event streams. Part D: all record sequences of "
    "the stated shapes, decode(encode(x)) == x"
)
ASSUMPTIONS = [
    "both native layers are SIMULATED from the vendor documentation (and, where it is silent, from what upstream's own "
    "platform tests expect); no Windows or macOS kernel is involved. The library code above the fake kernel32 / fake "
    "_watchdog_fsevents is the real one, imported from the working tree under the virtual threading/time/queue swap and "
    "run sequentially (single thread, no scheduler)",
    "W renderer: create/move-in -> ADDED(name); write/truncate/chmod -> MODIFIED(name); delete/move-out -> REMOVED(name) "
    "(one record for a moved-out directory, nothing for its contents); recursive delete -> REMOVED bottom-up; rename "
    "within one directory -> RENAMED_OLD_NAME immediately followed by RENAMED_NEW_NAME; rename between two directories "
    "of the tree -> both readings are generated (OLD+NEW as the API documentation suggests; REMOVED+ADDED as "
    "tests/test_emitter.py::test_move expects from Windows) - for a non-recursive watch only REMOVED/ADDED; a rename "
    "that replaces an existing file -> REMOVED(new) first (documentation silent); a directory replacing a directory is "
    "impossible on Windows and such histories are skipped in part W (counted); optional MODIFIED(parent directory) after "
    "a change of a non-root directory's entries (variant on/off); names use '/' so that the emitter's os.path.join gives "
    "real scratch paths; bWatchSubtree=FALSE reports only records whose name has no separator; root deleted -> the "
    "remaining records, then ReadDirectoryChangesW fails with ERROR_ACCESS_DENIED and GetFinalPathNameByHandleW names "
    "another path (the emitter's DELETED_SELF route)",
    "W: whether ReadDirectoryChangesW may return RENAMED_OLD_NAME as the last record of one buffer and RENAMED_NEW_NAME "
    "as the first of the next is not specified by the documentation; the simulator takes the permissive reading (every "
    "cut), findings that need such a cut say so in their fingerprint",
    "M renderer: one item per (path, inode) and batch, flags of successive changes OR-ed; create -> ItemCreated; "
    "write/truncate -> ItemModified; chmod -> ItemInodeMetaMod; delete -> ItemRemoved; rename inside -> two ItemRenamed "
    "items with the same inode (old path, new path; nothing for a replaced target, nothing for descendants); move out / "
    "move in -> one ItemRenamed item; root deleted -> RootChanged item for the root (inode None); ItemIsFile/ItemIsDir "
    "always set; coalescing never crosses a batch boundary (the 'sticky flags of earlier batches' behaviour the "
    "emitter's comments mention is a separate variant: ItemCreated/ItemModified/ItemInodeMetaMod flags that an item "
    "carried in an earlier batch are repeated in its later items); inodes are the real tmpfs inode numbers (never reused within an "
    "execution)",
    "M: where a coalesced item stands inside its batch is not documented; FSEvents.h says the event ID of an item 'comes "
    "from the most recent event being reported', so the primary reading places the item at its LAST change; the "
    "alternative (position of the FIRST change) is enumerated as well, and a problem that needs it gets its own "
    "fingerprint saying so (counterfactual run of the same schedule with the primary placement)",
    "delivery: a batch is processed either after the whole burst or right after the operation that produced its last "
    "record; other delivery points between operations are not enumerated",
    "the replay oracle is fsops.replay_events (C01): created = ensure present with the event's flavour, deleted = remove "
    "the subtree whatever the flavour, moved = move the subtree keeping the replay's kinds (unknown source = arrival); "
    "for a non-recursive watch both sides are restricted to the root's direct children and a moved event between a direct "
    "child and a deeper level is replayed as the departure / arrival of the direct child",
    "flavour/descendant expectations of the per-batch contract are only demanded when the object the record is about "
    "is still at that path when the batch is processed (both emitters stat the path at processing time)",
    "part D: extra padding between records (0..3 DWORDs beyond the DWORD alignment) and 16 bytes after n_bytes are zero "
    "filled (a decoder that reads them as a header then produces a visible bogus record instead of a wild memory read); "
    "names are arbitrary UTF-16 code unit sequences as NTFS allows",
]

ADDED, REMOVED, MODIFIED, OLD, NEW = 1, 2, 3, 4, 5


# =================================================================================================
# symbolic execution of a history: tree + identity of every entry after each operation
# =================================================================================================
class UnsupportedOp(Exception):
    """An operation kind of the fsops alphabet this module has no renderer for (the history is skipped and counted)."""


class Hist:
    __slots__ = ("tree0", "ops", "states", "effects", "root_gone", "dir_over_dir")

    def __init__(self, tree0, ops):
        self.tree0 = dict(tree0)
        self.ops = [tuple(o) for o in ops]
        self.root_gone = False
        self.dir_over_dir = False
        tree = dict(tree0)
        ids = {}
        n = [0]

        def new():
            n[0] += 1
            return n[0]

        for p in sorted(tree, key=lambda p: (p.count("/"), p)):
            ids[p] = new()
        self.states = [(dict(tree), dict(ids))]
        self.effects = []
        outside = []          # entries moved out so far: (kind, ident, {relative path: (kind, ident)})
        for op in self.ops:
            k = op[0]
            eff = []
            if k in ("mknod", "mkdir"):
                kind = "f" if k == "mknod" else "d"
                tree[op[1]] = kind
                ids[op[1]] = new()
                eff.append(("create", op[1], kind, ids[op[1]]))
            elif k == "makedirs":
                for p in (parent(op[1]), op[1]):
                    tree[p] = "d"
                    ids[p] = new()
                    eff.append(("create", p, "d", ids[p]))
            elif k == "mktree":
                # fsops: os.makedirs(d/d); create d/f; create d/d/f
                for p, kk in (("d", "d"), ("d/d", "d"), ("d/f", "f"), ("d/d/f", "f")):
                    tree[p] = kk
                    ids[p] = new()
                    eff.append(("create", p, kk, ids[p]))
            elif k in ("append", "truncate"):
                eff.append(("modify", op[1], tree[op[1]], ids[op[1]]))
            elif k == "chmod":
                eff.append(("meta", op[1], tree[op[1]], ids[op[1]]))
            elif k in ("unlink", "rmdir"):
                eff.append(("remove", op[1], tree.pop(op[1]), ids.pop(op[1])))
            elif k in ("rmtree", "rmtree_root"):
                top = op[1] if k == "rmtree" else None
                sub = [p for p in tree if top is None or p == top or inside(p, top)]
                for p in sorted(sub, key=lambda p: (-p.count("/"), p)):
                    eff.append(("remove", p, tree.pop(p), ids.pop(p)))
                if k == "rmtree_root":
                    eff.append(("root_gone",))
                    self.root_gone = True
            elif k == "rename":
                a, b = op[1], op[2]
                victim = ids.get(b)
                if victim is not None and tree[b] == "d":
                    self.dir_over_dir = True
                sub = [p for p in tree if inside(p, a)]
                kind = tree.pop(a)
                ident = ids.pop(a)
                moved = [(p, tree.pop(p), ids.pop(p)) for p in sub]
                tree[b] = kind
                ids[b] = ident
                for p, kk, ii in moved:
                    tree[b + p[len(a):]] = kk
                    ids[b + p[len(a):]] = ii
                eff.append(("rename", a, b, kind, ident, victim))
            elif k == "move_out":
                a = op[1]
                sub = {p[len(a) + 1:]: (tree.pop(p), ids.pop(p)) for p in [p for p in tree if inside(p, a)]}
                outside.append((tree[a], ids[a], sub))
                eff.append(("depart", a, tree.pop(a), ids.pop(a)))
            elif k == "move_back":
                # the op[1]-th entry that was moved out comes back (same object, same inode) at path op[2]
                kind, ident, sub = outside[op[1]]
                tree[op[2]] = kind
                ids[op[2]] = ident
                for q, (kk, ii) in sub.items():
                    tree[op[2] + "/" + q] = kk
                    ids[op[2] + "/" + q] = ii
                eff.append(("arrive", op[2], kind, ident))
            elif k == "move_in_file":
                tree[op[1]] = "f"
                ids[op[1]] = new()
                eff.append(("arrive", op[1], "f", ids[op[1]]))
            elif k == "move_in_dir":
                tree[op[1]] = "d"
                ids[op[1]] = new()
                eff.append(("arrive", op[1], "d", ids[op[1]]))
                if op[2] == "tree":
                    for q, kk in ((op[1] + "/d", "d"), (op[1] + "/f", "f")):
                        tree[q] = kk
                        ids[q] = new()
            else:
                raise UnsupportedOp(op)
            self.effects.append(eff)
            self.states.append((dict(tree), dict(ids)))

    def name(self):
        return f"tree={sorted(self.tree0)} ops=" + " ; ".join(" ".join(map(str, o)) for o in self.ops)


def win_notifs(h, parent_mod, xdir, recursive):
    out = []
    for i, eff in enumerate(h.effects):
        for e in eff:
            for rec in winsim.render([e], parent_mod=parent_mod, xdir=xdir, recursive=recursive):
                if rec[0] != "SELF":
                    out.append((i, rec, e))
    return out


def mac_notifs(h):
    out = []
    for i, eff in enumerate(h.effects):
        for e in eff:
            for ch in macsim.render([e]):
                out.append((i, ch, e))
    return out


# =================================================================================================
# cuts and schedules
# =================================================================================================
def all_cuts(n, cap_n, cap_k=3):
    """Every set of cut positions in 1..n-1; beyond cap_n records only the sets with <= cap_k cuts."""
    if n <= 1:
        return [()], False
    pos = range(1, n)
    if n <= cap_n:
        return [c for k in range(n) for c in itertools.combinations(pos, k)], False
    return [c for k in range(cap_k + 1) for c in itertools.combinations(pos, k)], True


def schedules(notifs, nops, cap_n):
    """Distinct schedules (tuples of ('op', i) / ('batch', lo, hi)), simplest first: fewer cuts first,
    'end' before 'prompt'."""
    n = len(notifs)
    cuts, capped = all_cuts(n, cap_n)
    seen = set()
    out = []
    for cut in cuts:
        bounds = [0, *cut, n] if n else [0]
        batches = [(bounds[j], bounds[j + 1]) for j in range(len(bounds) - 1)]
        for mode in ("end", "prompt"):
            if mode == "end":
                steps = [("op", i) for i in range(nops)] + [("batch", lo, hi) for lo, hi in batches]
            else:
                steps = []
                bi = 0
                for i in range(nops):
                    steps.append(("op", i))
                    while bi < len(batches) and notifs[batches[bi][1] - 1][0] == i:
                        steps.append(("batch", *batches[bi]))
                        bi += 1
                assert bi == len(batches)
            key = tuple(steps)
            if key not in seen:
                seen.add(key)
                out.append((mode, cut, key))
    return out, capped


# =================================================================================================
# execution on a real scratch tree
# =================================================================================================
_SCR = {"pid": None, "n": 0, "base": None}


def _scratch():
    pid = os.getpid()
    if _SCR["pid"] != pid:
        _SCR.update(pid=pid, n=0, base=os.path.join(fsops.scratch_base(), "c20"))
        shutil.rmtree(_SCR["base"], ignore_errors=True)
        os.makedirs(_SCR["base"], exist_ok=True)
    _SCR["n"] += 1
    b = os.path.join(_SCR["base"], str(_SCR["n"]))
    R, O = os.path.join(b, "R"), os.path.join(b, "O")
    os.makedirs(R)      # also re-creates the base should somebody have cleaned /dev/shm meanwhile
    os.mkdir(O)
    return b, R, O


def _cleanup_scratch():
    if _SCR["pid"] == os.getpid() and _SCR["base"]:
        shutil.rmtree(_SCR["base"], ignore_errors=True)
        try:
            os.rmdir(os.path.dirname(_SCR["base"]))
        except OSError:
            pass
        _SCR["pid"] = None


# the operations are executed exactly as the C01 harness executes them
_perform = fsops.HistoryHarness({}, [], fsops.Config(outside_ops=False)).perform


def _rm(path):
    """Remove a small real directory tree (cheaper than shutil.rmtree's fd based walk)."""
    try:
        with os.scandir(path) as it:
            entries = list(it)
        for e in entries:
            if e.is_dir(follow_symlinks=False):
                _rm(e.path)
            else:
                os.unlink(e.path)
        os.rmdir(path)
    except OSError:
        shutil.rmtree(path, ignore_errors=True)


def _drain(q, R, bi, out):
    pre = R + "/"
    n = len(pre)

    def rel(p):
        if p == "":
            return None
        if p == R:
            return ""
        if p.startswith(pre):
            return p[n:]
        return "!" + p

    while True:
        try:
            ev, _w = q.get_nowait()
        except realqueue.Empty:
            return
        out.append((bi, type(ev).__name__, rel(ev.src_path), rel(ev.dest_path), ev.is_directory, ev.is_synthetic,
                    type(ev.src_path).__name__))


def exec_win(h, notifs, steps, recursive):
    api = wd.mod("watchdog.observers.api")
    rdc = winsim.rdc()
    base, R, O = _scratch()
    try:
        fsops.build_tree(R, h.tree0)
        K = winsim.K
        K.reset(final_path=R)
        q = api.EventQueue()
        em = rdc.WindowsApiEmitter(q, api.ObservedWatch(R, recursive=recursive))
        em.on_thread_start()
        state = {"out": [], "n": 0}
        events = []
        deliveries = []          # (batch index, lo, hi, ops done)
        done = 0
        error = None

        def deliver(lo, hi):
            nonlocal error
            bi = len(deliveries)
            deliveries.append((bi, lo, hi, done))
            try:
                em.queue_events(1.0)
            except Exception as e:  # noqa: BLE001 - only the library call is guarded; harness errors propagate
                error = f"{type(e).__name__}: {e}"
            _drain(q, R, bi, events)

        for st in steps:
            if error:
                break
            if st[0] == "op":
                _perform(R, O, h.ops[st[1]], state)
                done += 1
            else:
                buf, _n = winsim.encode([notifs[j][1] for j in range(st[1], st[2])])
                K.reads.append(("data", buf))
                deliver(st[1], st[2])
        if h.root_gone and not error:
            K.final_path = "\\Device\\HarddiskVolume1\\$Extend\\$Deleted\\0001"
            K.reads.append(("error", winsim.ERROR_ACCESS_DENIED))
            deliver(len(notifs), len(notifs))
        sub_flags = [c[2] for c in K.calls if c[0] == "ReadDirectoryChangesW"]
        final = None if h.root_gone else fsops.walk_tree(R)
        return dict(events=events, deliveries=deliveries, final=final, running=em.should_keep_running(), error=error,
                    leftover_reads=len(K.reads), subtree_flags_ok=all(f == recursive for f in sub_flags))
    finally:
        _rm(base)


STICKY = macsim.F_CREATED | macsim.F_MODIFIED | macsim.F_INODE_META_MOD


def needs_sticky(notifs, steps):
    """Does some item recur in a later batch after it carried a created/modified/meta flag?"""
    seen = set()
    for st in steps:
        if st[0] != "batch":
            continue
        keys = {}
        for j in range(st[1], st[2]):
            p, ident, flags = notifs[j][1]
            keys[(p, ident)] = keys.get((p, ident), 0) | flags
        if any(k in seen for k in keys):
            return True
        seen |= {k for k, f in keys.items() if f & STICKY}
    return False


def exec_mac(h, notifs, steps, recursive, suppress_history=False, place="last", sticky=False):
    api = wd.mod("watchdog.observers.api")
    fse = macsim.fsevents()
    base, R, O = _scratch()
    try:
        fsops.build_tree(R, h.tree0)
        q = api.EventQueue()
        em = fse.FSEventsEmitter(q, api.ObservedWatch(R, recursive=recursive), suppress_history=suppress_history)
        em._start_time = fse.time.monotonic()      # what FSEventsEmitter.run() does before add_watch
        em.on_thread_start()
        bound = {}

        def bind(k):
            for p, ident in h.states[k][1].items():
                if ident not in bound:
                    bound[ident] = os.lstat(R + "/" + p).st_ino

        bind(0)
        state = {"out": [], "n": 0}
        events = []
        deliveries = []
        done = 0
        eid = 100
        sticky_flags = {}
        error = None
        for st in steps:
            if error:
                break
            if st[0] == "op":
                _perform(R, O, h.ops[st[1]], state)
                done += 1
                if not h.root_gone or done < len(h.ops):
                    bind(done)
            else:
                items = macsim.coalesce([notifs[j][1] for j in range(st[1], st[2])], place)
                natives = []
                for p, ident, flags in items:
                    if sticky:
                        # flags already reported for this item in an earlier batch show up again
                        flags |= sticky_flags.get((p, ident), 0)
                    sticky_flags[(p, ident)] = sticky_flags.get((p, ident), 0) | (flags & STICKY)
                    eid += 1
                    natives.append(macsim.NativeEvent(R if p is None else R + "/" + p,
                                                      None if ident is None else bound[ident], flags, eid))
                bi = len(deliveries)
                deliveries.append((bi, st[1], st[2], done))
                try:
                    em.queue_events(1.0, natives)
                except Exception as e:  # noqa: BLE001 - only the library call is guarded; harness errors propagate
                    error = f"{type(e).__name__}: {e}"
                _drain(q, R, bi, events)
        final = None if h.root_gone else fsops.walk_tree(R)
        return dict(events=events, deliveries=deliveries, final=final, running=em.should_keep_running(), error=error)
    finally:
        _rm(base)


# =================================================================================================
# oracles
# =================================================================================================
def _kindname(cls):
    for k in ("Created", "Deleted", "Modified", "Moved"):
        if cls.endswith(k + "Event"):
            return k
    return cls


def _top(t):
    return {p: k for p, k in t.items() if "/" not in p}


def flat_view(evs):
    """What a stream means for the root's direct children (non-recursive watch): a move to a deeper level is a
    departure, a move from a deeper level an arrival; events wholly below the direct children say nothing."""
    out = []
    for e in evs:
        deep_src = e[2] is not None and "/" in e[2]
        deep_dst = e[3] is not None and "/" in e[3]
        if _kindname(e[1]) == "Moved" and (deep_src != deep_dst):
            flav = "Dir" if e[4] else "File"
            if deep_dst:
                out.append((e[0], flav + "DeletedEvent", e[2], None) + tuple(e[4:]))
            else:
                out.append((e[0], flav + "CreatedEvent", e[3], None) + tuple(e[4:]))
        elif not (deep_src or deep_dst):
            out.append(e)
    return out


def common_checks(h, res, recursive, layer):
    """Exceptions, model sanity, root deletion, C01 replay.  Returns list of (clause, message, detail)."""
    out = []
    if res["error"]:
        out.append(("exception", f"queue_events raised {res['error']}", None))
        return out
    evs = res["events"]
    if h.root_gone:
        roots = [i for i, e in enumerate(evs) if e[1] == "DirDeletedEvent" and e[2] == ""]
        if len(roots) != 1 or roots[0] != len(evs) - 1:
            out.append(("root-delete", f"deleting the watched root must end the stream with exactly one "
                                       f"DirDeletedEvent(root); got {len(roots)} at positions {roots} of {len(evs)}", None))
        if res["running"]:
            out.append(("root-delete", "the emitter keeps running after the watched root was deleted", None))
        return out
    if not res["running"]:
        out.append(("stopped", "the emitter stopped although the root exists", None))
    if res["final"] != h.states[-1][0]:
        out.append(("INFRA-model", f"reference model {sorted(h.states[-1][0].items())} != disk {sorted(res['final'].items())}", None))
        return out
    try:
        got = fsops.replay_events(h.tree0, evs if recursive else flat_view(evs), recursive)
    except Exception as e:  # noqa: BLE001 - e.g. a moved event whose destination contains its own source
        out.append(("unreplayable", f"the event stream cannot be replayed ({type(e).__name__}: {e}): a moved event is "
                                    f"inconsistent with the events before it", None))
        return out
    final = res["final"]
    if not recursive:
        got, final = _top(got), _top(final)
    if got != final:
        missing = sorted(set(final) - set(got))
        extra = sorted(set(got) - set(final))
        wrong = sorted(p for p in set(got) & set(final) if got[p] != final[p])
        out.append(("replay-mismatch", f"replaying the event stream gives {sorted(got.items())}, the tree on disk is "
                                       f"{sorted(final.items())} (missing {missing}, stale {extra}, wrong kind {wrong})",
                    dict(missing=missing, extra=extra, wrong=wrong)))
    return out


def _split_stream(evs):
    """[(non-synthetic event, [synthetic events that follow it])]"""
    groups = []
    for e in evs:
        if e[5] and groups:
            groups[-1][1].append(e)
        else:
            groups.append((e, []))
    return groups


def _desc(tree, p):
    return {q: k for q, k in tree.items() if inside(q, p)}


def win_contract(h, notifs, res, recursive):
    """Per-batch translation table of the Windows emitter."""
    out = []
    if not res["subtree_flags_ok"]:
        out.append(("table: bWatchSubtree != watch.is_recursive", "ReadDirectoryChangesW was called with the wrong "
                                                                  "bWatchSubtree flag"))
    by_batch = {}
    for e in res["events"]:
        by_batch.setdefault(e[0], []).append(e)
    for bi, lo, hi, done in res["deliveries"]:
        evs = by_batch.get(bi, [])
        if lo == hi:
            continue   # the DELETED_SELF read is checked by common_checks
        tree, ids = h.states[done]
        exp = []   # (record label, kind, src, dest, flavour|None, syn set|None, free, skippable)
        j = lo
        while j < hi:
            _i, rec, eff = notifs[j]
            act, name = rec
            lab = winsim.ACTION_NAMES[act]
            if act == ADDED:
                ident = eff[4] if eff[0] == "rename" else eff[3]
                kind = eff[3] if eff[0] == "rename" else eff[2]
                if ids.get(name) == ident:
                    syn = {("Created", q, None, k == "d") for q, k in _desc(tree, name).items()} if recursive else set()
                    exp.append((lab, "Created", name, None, kind == "d", syn, False))
                else:
                    exp.append((lab, "Created", name, None, None, None, False))
            elif act == REMOVED:
                exp.append((lab, "Deleted", name, None, None, set(), False))
            elif act == MODIFIED:
                exp.append((lab, "Modified", name, None, (tree.get(name) == "d") if name in tree else None, set(), False))
            elif act == OLD:
                if j + 1 < hi and notifs[j + 1][1][0] == NEW and notifs[j + 1][2] is eff:
                    _, old, new, kind, ident, _v = eff
                    if ids.get(new) == ident:
                        syn = ({("Moved", old + q[len(new):], q, k == "d") for q, k in _desc(tree, new).items()}
                               if recursive else set())
                        exp.append(("RENAMED_OLD+NEW", "Moved", old, new, kind == "d", syn, False))
                    else:
                        exp.append(("RENAMED_OLD+NEW", "Moved", old, new, None, None, False))
                    j += 1
                # a lone OLD half: nothing is demanded
            elif act == NEW:
                exp.append(("lone RENAMED_NEW", None, None, name, None, None, True))
            j += 1
        groups = _split_stream(evs)
        gi = 0
        prev = None
        for lab, kind, src, dest, flavour, syn, free in exp:
            g = groups[gi] if gi < len(groups) else None
            if free:
                # the source is unknown to the emitter: any one event about the new name is accepted
                if g is not None and (g[0][3] == dest or g[0][2] == dest):
                    gi += 1
                prev = None
                continue
            ok = g is not None and _kindname(g[0][1]) == kind and g[0][2] == src and g[0][3] == dest
            if not ok:
                if prev == (kind, src, dest):
                    continue     # dropped by the queue as a repetition of the event put just before
                got = "nothing" if g is None else f"{_kindname(g[0][1])}" + (" with other paths" if _kindname(g[0][1]) == kind else "")
                out.append((f"table: {lab} -> expected {kind}, got {got}",
                            f"batch {bi} records {[notifs[k][1] for k in range(lo, hi)]} processed after {done} "
                            f"operation(s): expected a {kind} event ({src!r}, {dest!r}) for {lab}, got "
                            f"{None if g is None else g[0][1:6]}; events of the batch: {[e[1:6] for e in evs]}"))
                break
            gi += 1
            e0, syns = g
            if flavour is not None and e0[4] != flavour:
                out.append((f"table: {lab} -> {kind} event with the wrong File/Dir flavour",
                            f"batch {bi} processed after {done} operation(s): {e0[1:6]} for a "
                            f"{'directory' if flavour else 'file'} that is present at that path"))
                break
            got_syn = {(_kindname(s[1]), s[2], s[3], s[4]) for s in syns}
            if syn is not None:
                want = {(k, a, b, d) if k == "Moved" else (k, a, None, d) for k, a, b, d in syn}
                if got_syn != want:
                    out.append((f"table: {lab} -> wrong synthetic events for the descendants",
                                f"batch {bi} processed after {done} operation(s): synthetic events {sorted(map(str, got_syn))}, "
                                f"expected {sorted(map(str, want))} after {e0[1:6]}"))
                    break
            else:
                base_ = dest if kind == "Moved" else src
                if any(not inside((s[3] if kind == "Moved" else s[2]) or "", base_) for s in syns):
                    out.append((f"table: {lab} -> synthetic event outside the subtree",
                                f"batch {bi}: {[s[1:6] for s in syns]} after {e0[1:6]}"))
                    break
            prev = (kind, src, dest) if not syns else None
        else:
            if gi < len(groups):
                out.append(("table: event without a justifying record",
                            f"batch {bi} records {[notifs[k][1] for k in range(lo, hi)]}: unexpected "
                            f"{groups[gi][0][1:6]}; events of the batch: {[e[1:6] for e in evs]}"))
    return out


def mac_contract(h, notifs, res, recursive, place="last"):
    """Per-batch translation table of the FSEvents emitter.  Returns [(clause, message, subject_is_child_dir)];
    the flag marks expectations about a DIRECTORY that is a direct child of the root of a non-recursive
    watch (one root cause, see FILTER_FP)."""
    out = []
    F = macsim
    by_batch = {}
    for e in res["events"]:
        by_batch.setdefault(e[0], []).append(e)
    if not recursive:
        for e in res["events"]:
            deep_src = e[2] is not None and "/" in e[2]
            deep_dst = e[3] is not None and "/" in e[3]
            if (deep_src and (e[3] is None or deep_dst)) or (deep_dst and e[2] is None):
                out.append(("watch reports an event below the root's direct children", f"event {e[1:6]}", False))
                break
    for bi, lo, hi, done in res["deliveries"]:
        evs = by_batch.get(bi, [])
        tree, ids = h.states[done]
        changes = [notifs[j] for j in range(lo, hi)]
        paths = {c[1][0] for c in changes}
        per_item = {}
        ren = {}       # ident -> list of (path, effect)
        for _i, (p, ident, flags), eff in changes:
            per_item.setdefault((p, ident), []).append((flags, eff))
            if flags & F.F_RENAMED:
                ren.setdefault(ident, []).append((p, eff))
        ns = [e for e in evs if not e[5]]
        syn = {(_kindname(s[1]), s[2], s[3], s[4]) for s in evs if s[5]}
        where = _Lazy(lambda bi=bi, done=done, changes=changes: f"batch {bi} processed after {done} operation(s), items "
                                                                f"{_items_str(changes, place)}")
        shown = [e[1:6] for e in evs]

        def visible(src, dest):
            """Is an event with these paths about a direct child of the root?  (all events of a recursive watch)"""
            return recursive or parent(src) == "" or (dest is not None and parent(dest) == "")

        def find(kind, src, dest):
            return [e for e in ns if _kindname(e[1]) == kind and e[2] == src and e[3] == dest]

        # (2) renames whose two halves are the inode's only rename items of this batch, (3) lone arrive / depart
        for ident, lst in ren.items():
            if len(lst) == 2 and lst[0][1] is lst[1][1] and lst[0][1][0] == "rename":
                _, old, new, kind, _id, _v = lst[0][1]
                if not visible(old, new):
                    continue
                cd = not recursive and kind == "d"
                gs = find("Moved", old, new)
                same = sum(1 for l2 in ren.values() if len(l2) >= 2 and any(a[0] == old for a in l2) and any(a[0] == new for a in l2))
                if not 1 <= len(gs) <= same:
                    out.append((f"table: rename with both halves in one batch -> {min(len(gs), 2)} moved events with both paths",
                                f"{where}: expected exactly one moved event {old!r} -> {new!r}; events: {shown}", cd))
                    continue
                if not any(g[4] == (kind == "d") for g in gs):
                    out.append(("table: moved event with the wrong File/Dir flavour", f"{where}: {gs[0][1:6]}", False))
                if recursive and ids.get(new) == ident and len(ren) == 1:
                    want = {("Moved", old + q[len(new):], q, k == "d") for q, k in _desc(tree, new).items()}
                    if syn != want:
                        out.append(("table: rename -> wrong synthetic events for the descendants",
                                    f"{where}: synthetic {sorted(map(str, syn))}, expected {sorted(map(str, want))}", False))
            elif len(lst) == 1 and lst[0][1][0] in ("arrive", "depart") and len(per_item[(lst[0][0], ident)]) == 1:
                p, eff = lst[0]
                kind = eff[2]
                if not visible(p, None):
                    continue
                cd = not recursive and kind == "d"
                if eff[0] == "depart" and ids.get(p) != ident:      # (not: moved out and back to the same path meanwhile)
                    if not 1 <= len(find("Deleted", p, None)) <= sum(1 for k in per_item if k[0] == p):
                        out.append(("table: move out -> no deleted event",
                                    f"{where}: expected one deleted event for {p!r}; events: {shown}", cd))
                elif ids.get(p) == ident:
                    gs = find("Created", p, None)
                    if not 1 <= len(gs) <= sum(1 for k in per_item if k[0] == p):
                        out.append((f"table: move in -> {min(len(gs), 2)} created events for the arrived entry (expected 1)",
                                    f"{where}: expected one created event for {p!r}; events: {shown}", cd))
                        continue
                    if not any(g[4] == (kind == "d") for g in gs):
                        out.append(("table: created event with the wrong File/Dir flavour", f"{where}: {gs[0][1:6]}", False))
                    if recursive and len(ren) == 1:
                        want = {("Created", q, None, k == "d") for q, k in _desc(tree, p).items()}
                        if syn != want:
                            out.append(("table: move in -> wrong synthetic events for the descendants",
                                        f"{where}: synthetic {sorted(map(str, syn))}, expected {sorted(map(str, want))}", False))
        # simple items: exactly one change carrying one change flag
        for (p, ident), lst in per_item.items():
            if len(lst) != 1 or p is None:
                continue
            flags, eff = lst[0]
            kind = "d" if flags & F.F_IS_DIR else "f"
            want = ("Created" if flags & F.F_CREATED else "Deleted" if flags & F.F_REMOVED else
                    "Modified" if flags & (F.F_MODIFIED | F.F_INODE_META_MOD) else None)
            if want is None or not visible(p, None):
                continue
            if not [e for e in find(want, p, None) if e[4] == (kind == "d")]:
                item = {"Created": "ItemCreated", "Deleted": "ItemRemoved", "Modified": "ItemModified/InodeMetaMod"}[want]
                out.append((f"table: {item} -> no {want.lower()} event of the item's flavour",
                            f"{where}: expected a {want} event for {p!r} ({'dir' if kind == 'd' else 'file'}); events: {shown}",
                            not recursive and kind == "d"))
        # soundness: every moved event pairs two rename items of one inode; every path is justified; a created event
        # needs an item that was created or renamed in THIS batch (spurious repeated ItemCreated flags are suppressed)
        for e in ns:
            k = _kindname(e[1])
            if k == "Created" and not any(c[1][0] == e[2] and c[1][2] & (F.F_CREATED | F.F_RENAMED) for c in changes):
                out.append(("table: created event for an item that was neither created nor renamed in this batch",
                            f"{where}: {e[1:6]}", False))
            if k == "Moved":
                if not any(e[2] != e[3] and e[2] in [p for p, _ in lst] and e[3] in [p for p, _ in lst] for lst in ren.values()):
                    out.append(("table: moved event that pairs no two rename items of one inode", f"{where}: {e[1:6]}", False))
            elif e[1] == "DirModifiedEvent":
                if e[2] not in paths and not any(p is not None and parent(p) == e[2] for p in paths) \
                        and not (e[2] is not None and e[2].startswith("!")):
                    out.append(("table: event without a justifying item", f"{where}: {e[1:6]}", False))
            elif not (e[2] in paths or (e[2] == "" and None in paths)):
                out.append(("table: event without a justifying item", f"{where}: {e[1:6]}", False))
    return out



class _Lazy:
    """str() computed on demand (message parts that are only needed when an oracle fails)."""

    def __init__(self, f):
        self.f = f

    def __format__(self, spec):
        return format(self.f(), spec)

    __str__ = lambda self: self.f()  # noqa: E731


def _items_str(changes, place="last"):
    return [(p, f"#{ident}", macsim.flag_str(flags)) for p, ident, flags in macsim.coalesce([c[1] for c in changes], place)]


# =================================================================================================
# root-cause classification of replay mismatches (fingerprints must not contain incidental data)
# =================================================================================================
SPLIT_FP = ("win: rename halves split across batches lose the source path (RENAMED_OLD_NAME last in one buffer, "
            "RENAMED_NEW_NAME first in the next; last_renamed_src_path is local to one queue_events call)")
LATE_FP = ("win: File/Dir flavour and descendants of an ADDED / renamed entry are taken from os.path.isdir / os.walk at "
           "processing time, after later operations already renamed or replaced that path (e.g. mkdir d; rename d e in one "
           "buffer -> FileCreatedEvent(d) + DirMovedEvent(d, e)) -> replay has the wrong kind / stale descendants")


def _prompt_schedule(notifs, nops):
    """Every operation followed at once by one batch with exactly its own records."""
    steps = []
    j = 0
    for i in range(nops):
        steps.append(("op", i))
        lo = j
        while j < len(notifs) and notifs[j][0] == i:
            j += 1
        if j > lo:
            steps.append(("batch", lo, j))
    return tuple(steps)


def _merge_splits(notifs, steps):
    """The same schedule with every batch boundary between RENAMED_OLD and RENAMED_NEW removed (the merged batch is
    delivered where the second one was)."""
    steps = [list(s) for s in steps]
    changed = False
    while True:
        for k, st in enumerate(steps):
            if st[0] == "batch" and 0 < st[1] < len(notifs) and notifs[st[1]][1][0] == NEW and notifs[st[1] - 1][1][0] == OLD:
                prev = next(i for i, s2 in enumerate(steps) if s2[0] == "batch" and s2[2] == st[1])
                st[1] = steps[prev][1]
                del steps[prev]
                changed = True
                break
        else:
            break
    return tuple(tuple(s) for s in steps), changed


def _stale_record(h, notifs, steps):
    """Is some ADDED / RENAMED_NEW record processed when its path no longer holds the object it is about?"""
    done = 0
    for st in steps:
        if st[0] == "op":
            done += 1
            continue
        ids = h.states[done][1]
        for j in range(st[1], st[2]):
            (act, name), eff = notifs[j][1], notifs[j][2]
            if act in (ADDED, NEW) and ids.get(name) != (eff[4] if eff[0] == "rename" else eff[3]):
                return True
    return False


def classify_win(h, notifs, steps, res, detail, recursive):
    merged, changed = _merge_splits(notifs, steps)
    if changed:
        r2 = exec_win(h, notifs, merged, recursive)
        bad = [c for c in common_checks(h, r2, recursive, "win") if c[0] == "replay-mismatch"]
        if not bad:
            return SPLIT_FP
        detail = bad[0][2]
    stale = _stale_record(h, notifs, merged)
    if stale and detail["wrong"] and not detail["missing"] and not detail["extra"]:
        return LATE_FP         # only the kind differs (cheap rule; the general case is decided by the run below)
    if tuple(merged) != _prompt_schedule(notifs, len(h.ops)):
        r3 = exec_win(h, notifs, _prompt_schedule(notifs, len(h.ops)), recursive)
        if not [c for c in common_checks(h, r3, recursive, "win") if c[0] in ("replay-mismatch", "unreplayable", "exception")]:
            # the same records processed right after their operation replay correctly
            return LATE_FP if stale else ("win: replay-mismatch only when the records of several operations are processed "
                                          "together (unclassified)")
    return (f"win: replay-mismatch unclassified [{'recursive' if recursive else 'non-recursive'}; missing={bool(detail['missing'])} "
            f"stale={bool(detail['extra'])} wrong-kind={bool(detail['wrong'])}]")


FILTER_FP = ("mac non-recursive: events about a DIRECTORY that is a direct child of the root (created / deleted / modified / "
             "moved to or from a deeper level) are dropped - _is_recursive_event compares the directory's own path, not its "
             "parent, with the watch path")
TWICE_FP = ("mac: item renamed twice inside one batch (the ItemRenamed flags of one path coalesce: a->b->c, a->b + move out, "
            "a->b->a) -> only the first pairing is reported, stale/missing name in the replay")


JUMP_FP = ("mac: rename pairing jumps over intermediate items (an ItemRenamed item is paired with a later, non-adjacent item of "
           "the same inode - item moved out of the tree and back under another name - and the moved event is queued before "
           "the events of the items in between, e.g. the departure of the old occupant of the destination)")
ORDER_FP = ("mac [only when a coalesced item is reported at the position of its FIRST change]: an item's coalesced "
            "ItemRenamed is processed before earlier changes of other items -> moved/created/deleted events out of order")


def classify_mac(h, notifs, steps, res, detail, recursive, suppress_history=False, place="last"):
    F = macsim
    if not recursive:
        # counterfactual: the same schedule on a recursive watch, filtered as the property demands (events about
        # direct children of the root); if that replays correctly the non-recursive filter is the cause
        r2 = exec_mac(h, notifs, steps, True, suppress_history, place)
        if r2["error"] is None and _top(fsops.replay_events(h.tree0, flat_view(r2["events"]), False)) == _top(r2["final"]):
            return FILTER_FP
    for st in steps:
        if st[0] != "batch":
            continue
        cnt = {}
        for j in range(st[1], st[2]):
            p, ident, flags = notifs[j][1]
            if flags & F.F_RENAMED:
                cnt[(p, ident)] = cnt.get((p, ident), 0) + 1
        if any(v >= 2 for v in cnt.values()):
            return TWICE_FP
    for st in steps:
        if st[0] != "batch":
            continue
        items = macsim.coalesce([notifs[j][1] for j in range(st[1], st[2])], place)
        for a, (pa, ia, fa) in enumerate(items):
            if fa & F.F_RENAMED:
                nxt = next((b for b in range(a + 1, len(items)) if items[b][2] & F.F_RENAMED and items[b][1] == ia), None)
                if nxt is not None and nxt > a + 1:
                    return JUMP_FP
    return (f"mac: replay-mismatch unclassified [{'recursive' if recursive else 'non-recursive'}; missing={bool(detail['missing'])} "
            f"stale={bool(detail['extra'])} wrong-kind={bool(detail['wrong'])}]")


# =================================================================================================
# one history under one configuration
# =================================================================================================
class Acc:
    def __init__(self):
        self.histories = 0
        self.sequences = 0
        self.executions = 0
        self.nontrivial = 0
        self.skipped = 0
        self.unsupported = 0
        self.capped = 0
        self.maxrec = 0
        self.records = 0
        self.failing = 0
        self.streams = set()
        self.bad = {}
        self.sample = None

    def problem(self, fp, size, msg, case):
        old = self.bad.get(fp)
        if old is None or size < old[0]:
            self.bad[fp] = (size, msg, case)

    def merge(self, o):
        for k in ("histories", "sequences", "executions", "nontrivial", "skipped", "unsupported", "capped", "records", "failing"):
            setattr(self, k, getattr(self, k) + getattr(o, k))
        self.maxrec = max(self.maxrec, o.maxrec)
        self.streams |= o.streams
        for fp, v in o.bad.items():
            if fp not in self.bad or v[0] < self.bad[fp][0]:
                self.bad[fp] = v
        if o.sample is not None and (self.sample is None or o.sample[0] < self.sample[0]):
            self.sample = o.sample


def win_variants(h, recursive, pm_max_len=99):
    """Distinct notification sequences of the history, simplest first."""
    seen = []
    out = []
    for parent_mod in ((False, True) if len(h.ops) <= pm_max_len else (False,)):
        for xdir in (("pair", "split") if recursive else ("split",)):
            n = win_notifs(h, parent_mod, xdir, recursive)
            key = [x[1] for x in n]
            if key not in seen:
                seen.append(key)
                out.append((dict(parent_mod=parent_mod, xdir=xdir), n))
    return out


def run_history(acc, layer, cfg, tree0, ops, cap_n):
    try:
        h = Hist(tree0, ops)
    except UnsupportedOp:
        acc.unsupported += 1
        return
    recursive = cfg["recursive"]
    if layer == "win":
        if h.dir_over_dir:
            acc.skipped += 1
            return
        variants = win_variants(h, recursive, cfg.get("parent_mod_max_burst", 99))
    else:
        mn = mac_notifs(h)
        # a coalesced item is placed at its LAST change (FSEvents.h: the event id is that of the most recent event).
        # The alternative reading (position of the first change) was enumerated at first; the only problem it added
        # vanished under the documented placement and was judged an artefact of a too permissive simulator.
        variants = [(dict(place="last"), mn), (dict(place="last", sticky=True), mn)]
    acc.histories += 1
    for variant, notifs in variants:
        first_place = variant.get("place") == "first"
        sticky = variant.get("sticky", False)
        if not first_place and not sticky:
            acc.sequences += 1
            acc.records += len(notifs)
            acc.maxrec = max(acc.maxrec, len(notifs))
        scheds, capped = schedules(notifs, len(h.ops), cap_n)
        acc.capped += capped and not first_place and not sticky
        for mode, cut, steps in scheds:
            if first_place and all(st[0] == "op" or _same_placement(notifs, st[1], st[2]) for st in steps):
                continue     # no batch of this schedule depends on where a coalesced item is placed
            if sticky and not needs_sticky(notifs, steps):
                continue     # no item recurs in a later batch
            probs, res = run_schedule(layer, cfg, h, notifs, steps, variant)
            acc.executions += 1
            if res["events"]:
                acc.nontrivial += 1
                acc.streams.add(hash(tuple(e[1:6] for e in res["events"])))
            if len(h.ops) == 2 and len(cut) == 1 and len(res["events"]) >= 3 and not probs:
                key = (h.name(), repr(steps), repr(variant))
                if acc.sample is None or key < acc.sample[0]:
                    acc.sample = (key, dict(layer=layer, cfg=cfg, variant=variant, history=h.name(),
                                            schedule=_batches_str(layer, notifs, steps, variant.get("place", "last")),
                                            events=[list(e[:6]) for e in res["events"]]))
            if probs:
                acc.failing += 1
            for fp, msg in probs:
                size = (len(h.ops), len(h.tree0), len(notifs), len(cut), mode != "end",
                        variant.get("parent_mod", False), variant.get("xdir") == "split", cfg.get("suppress_history", False),
                        first_place, sticky, h.name(), repr(steps))
                old = acc.bad.get(fp)
                if old is not None and old[0] <= size:
                    continue
                case = dict(layer=layer, cfg=cfg, variant=variant, tree0=h.tree0, ops=[list(o) for o in h.ops],
                            steps=[list(s) for s in steps])
                acc.problem(fp, size, f"{msg}\n history: {h.name()}\n configuration: {cfg} {variant}\n schedule: "
                                      f"{_batches_str(layer, notifs, steps, variant.get('place', 'last'))}\n events (batch, class, src, dest, is_directory, "
                                      f"is_synthetic): {[e[:6] for e in res['events']]}", case)


def _same_placement(notifs, lo, hi):
    ch = [notifs[j][1] for j in range(lo, hi)]
    keys = [(c[0], c[1]) for c in ch]
    if len(set(keys)) == len(keys):
        return True
    return macsim.coalesce(ch, "first") == macsim.coalesce(ch, "last")


def _batches_str(layer, notifs, steps, place="last"):
    out = []
    for st in steps:
        if st[0] == "op":
            out.append(f"op{st[1]}")
        elif layer == "win":
            out.append("[" + ", ".join(f"{winsim.ACTION_NAMES[notifs[j][1][0]]}({notifs[j][1][1]})" for j in range(st[1], st[2])) + "]")
        else:
            out.append("[" + ", ".join(f"({'<root>' if p is None else p} #{i} {macsim.flag_str(f)})" for p, i, f in
                                       macsim.coalesce([notifs[j][1] for j in range(st[1], st[2])], place)) + "]")
    return " ".join(out)


def _execute(layer, cfg, h, notifs, steps, place, sticky=False):
    for attempt in range(3):
        try:
            if layer == "win":
                return exec_win(h, notifs, steps, cfg["recursive"])
            return exec_mac(h, notifs, steps, cfg["recursive"], cfg.get("suppress_history", False), place, sticky)
        except OSError:
            # the harness' own scratch operations failed (scratch directory removed from outside): run again
            if attempt == 2:
                raise


def run_schedule(layer, cfg, h, notifs, steps, variant=None, _counterfactual=False):
    """-> ([(fingerprint, message)], execution result)"""
    recursive = cfg["recursive"]
    sh = cfg.get("suppress_history", False)
    place = (variant or {}).get("place", "last")
    sticky = (variant or {}).get("sticky", False)
    res = _execute(layer, cfg, h, notifs, steps, place, sticky)
    probs = []
    tag = f"{layer}{'' if recursive else ' non-recursive'}"
    checks = common_checks(h, res, recursive, layer)
    contract = []
    if not res["error"]:
        contract = (win_contract(h, notifs, res, recursive) if layer == "win"
                    else mac_contract(h, notifs, res, recursive, place))
    if layer == "mac" and place == "first" and (checks or contract) and not _counterfactual:
        # does the problem need the permissive placement of coalesced items?
        p2, _ = run_schedule(layer, cfg, h, notifs, steps, dict(variant, place="last"), _counterfactual=True)
        if not p2:
            return [(ORDER_FP, (checks[0][1] if checks else contract[0][1]))], res
    if layer == "mac" and sticky and (checks or contract) and not _counterfactual:
        p2, _ = run_schedule(layer, cfg, h, notifs, steps, dict(variant, sticky=False), _counterfactual=True)
        if not p2:
            first = checks[0][:2] if checks else contract[0][:2]
            return [(f"mac [flags of an item reported in an earlier batch repeated in a later item]: {first[0]}", first[1])], res
    for clause, msg, detail in checks:
        if clause == "replay-mismatch":
            fp = (classify_win(h, notifs, steps, res, detail, recursive) if layer == "win"
                  else classify_mac(h, notifs, steps, res, detail, recursive, sh, place))
        elif clause == "exception":
            fp = f"{tag}: {res['error'].split(':')[0]} escapes queue_events"
        else:
            fp = f"{tag}: {clause}"
        probs.append((fp, msg))
    if layer == "win":
        for clause, msg in contract:
            probs.append((f"{tag} {clause}", msg))
        if res["leftover_reads"]:
            probs.append(("INFRA scripted read not consumed", "queue_events did not read the scripted buffer"))
    else:
        for clause, msg, child_dir in contract:
            probs.append((FILTER_FP if child_dir else f"{tag} {clause}", msg))
    seen = set()
    return [x for x in probs if not (x[0] in seen or seen.add(x[0]))], res


# =================================================================================================
# parallel driver for the history parts
# =================================================================================================


def histories_of(tree, n, root_delete=False):
    m = fsops.Model(tree)
    bs = fsops.bursts(m, n, True, outside_ops=False, root_delete=root_delete, paces=("burst",))
    out = [[op for op, _ in b] for b in bs]
    if root_delete:
        out = [b for b in out if b[-1][0] == "rmtree_root"]
    return out


def _job(args):
    layer, cfg, tree, k, m, n, root_delete, cap_n = args
    for mod in (winsim, macsim):
        mod.load()
    acc = Acc()
    try:
        hs = histories_of(tree, n, root_delete)
        for i in range(k, len(hs), m):
            run_history(acc, layer, cfg, tree, hs[i], cap_n)
    finally:
        _cleanup_scratch()
    return acc


def history_part(ctx, pool, layer, cfg, trees, n, *, root_delete=False, cap_n=12, label):
    jobs = []
    for t in trees:
        m = 1 if n <= 1 else (2 if n == 2 else 12)
        for k in range(m):
            jobs.append((layer, cfg, t, k, m, n, root_delete, cap_n))
    # big trees last would leave stragglers: schedule the most expensive jobs first
    jobs.sort(key=lambda j: -len(j[2]))
    total = Acc()
    t0 = time.time()
    for acc in pool.imap_unordered(_job, jobs, chunksize=1):
        total.merge(acc)
    print(f"  [{label}: {total.executions} executions, {total.failing} failing, {time.time() - t0:.1f}s]", flush=True)
    for fp, (size, msg, case) in sorted(total.bad.items()):
        infra = fp.split(" ", 1)[-1].startswith("INFRA") or "INFRA" in fp
        ctx.add_violation(dict(kind=fp.split(":")[0], fp=fp, msg=msg + f"\n (part {label})", prefix=[], harness="c20",
                               case=case, **({"infra": True} if infra else {})))
    ctx.add_enum(label, total.executions, total.nontrivial, samples=[total.sample[1]] if total.sample else [],
                 states=len(total.streams), transitions=total.records,
                 exhaustive=total.capped == 0 and total.unsupported == 0,
                 extra=dict(layer=layer, configuration=cfg, initial_trees=len(trees), burst_len=n, histories=total.histories,
                            notification_sequences=total.sequences, notification_records=total.records,
                            max_records_per_sequence=total.maxrec, executions=total.executions,
                            distinct_event_streams=len(total.streams),
                            sequences_with_capped_cuts=total.capped, cut_cap=f"all cuts up to {cap_n} records, beyond: <= 3 cut points",
                            histories_skipped_dir_over_dir=total.skipped, histories_skipped_unsupported_operation=total.unsupported,
                            failing_executions=total.failing))
    return total


# =================================================================================================
# part D: buffer decoders
# =================================================================================================
A, NB, BOM, REV = "a", "\U00010400", "﻿", "￾"
ACTIONS = (1, 2, 3, 4, 5)
PADS = (0, 1, 2, 3)


def win_names(which):
    """Names of 0..5 characters.
    'all':     every string over {a, non-BMP character} plus every such string with a leading U+FEFF / U+FFFE;
    'classes': per length one pure ASCII name, one ending in a non-BMP character, one per leading special;
    'few':     '', 'a', non-BMP, U+FEFF+'a', 'aaaaa'."""
    if which == "few":
        return ["", A, NB, BOM + A, A * 5]
    out = [""]
    for n in range(1, 6):
        if which == "all":
            out += ["".join(c) for c in itertools.product((A, NB), repeat=n)]
            out += [s + "".join(c) for s in (BOM, REV) for c in itertools.product((A, NB), repeat=n - 1)]
        else:
            out += [A * n, A * (n - 1) + NB, BOM + A * (n - 1), REV + A * (n - 1)]
    return out


def _win_space(spec):
    names, actions, pads = spec
    return [(a, nm, x) for a in actions for nm in win_names(names) for x in pads]


def _win_decode_job(args):
    k, m, specs = args
    parse = winsim.winapi()._parse_event_buffer
    spaces = [_win_space(sp) for sp in specs]
    spaces[0] = spaces[0][k::m]
    nrec = len(specs)
    evals = nontrivial = nbad = 0
    bad = {}
    for combo in itertools.product(*spaces):
        recs = [(a, nm) for a, nm, _ in combo]
        extra = [x for _, _, x in combo]
        buf, n = winsim.encode(recs, extra)
        evals += 1
        if nrec > 1 or recs[0][1]:
            nontrivial += 1
        try:
            got = parse(buf + bytes(16), n)
        except Exception as e:  # noqa: BLE001
            got = f"{type(e).__name__}: {e}"
        if got != recs:
            nbad += 1
            fp = _win_decode_class(recs, got)
            size = (nrec, sum(len(r[1]) for r in recs), sum(extra), [r[0] for r in recs], [r[1] for r in recs])
            if fp not in bad or size < bad[fp][0]:
                bad[fp] = (size, dict(records=[[a, [hex(ord(c)) for c in nm]] for a, nm in recs], extra_padding_dwords=extra,
                                      got=repr(got)))
    return evals, nontrivial, nbad, bad


BOM_FP = ("win-decoder: leading U+FEFF stripped (decode('utf-16') takes a leading U+FEFF / U+FFFE of the name for a byte "
          "order mark; the records are UTF-16-LE)")


def _win_decode_class(recs, got):
    if isinstance(got, str):
        if any(nm[:1] in (BOM, REV) for _, nm in recs):
            return BOM_FP
        return f"win-decoder: {got.split(':')[0]} raised while decoding a well-formed buffer"
    if len(got) != len(recs):
        return "win-decoder: wrong number of records decoded"
    for (a, nm), (ga, gn) in zip(recs, got):
        if a != ga:
            return "win-decoder: wrong action decoded"
        if nm != gn:
            if nm[:1] in (BOM, REV):
                return BOM_FP
            return "win-decoder: wrong name decoded"
    return "win-decoder: other"


INO_HEADS_ALL = [(w_, ma, co) for w_ in (1, -1, 2 ** 31 - 1) for ma in (0x100, 0x40000080) for co in (0, 0xFFFFFFFF)]
INO_HEADS_FEW = [(1, 0x100, 0), (-1, 0x40000080, 0xFFFFFFFF)]


def ino_names():
    out = [b""]
    for n in range(1, 6):
        out += [b"a" * n, b"\xff" + b"a" * (n - 1)]
    return out


def _ino_encode(recs):
    out = bytearray()
    for wd_, mask, cookie, name, pad in recs:
        out += struct.pack("iIII", wd_, mask, cookie, len(name) + pad) + name + b"\0" * pad
    return bytes(out)


def _ino_decode_job(args):
    k, m, heads_per_record = args
    parse = wd.mod("watchdog.observers.inotify_c").Inotify._parse_event_buffer
    spaces = [[(w_, ma, co, nm, pad) for (w_, ma, co) in heads for nm in ino_names() for pad in PADS]
              for heads in heads_per_record]
    spaces[0] = spaces[0][k::m]
    nrec = len(spaces)
    evals = nontrivial = nbad = 0
    bad = {}
    for combo in itertools.product(*spaces):
        buf = _ino_encode(combo)
        want = [(w_, ma, co, nm) for w_, ma, co, nm, _ in combo]
        evals += 1
        if nrec > 1 or combo[0][3]:
            nontrivial += 1
        try:
            got = list(parse(buf))
        except Exception as e:  # noqa: BLE001
            got = f"{type(e).__name__}: {e}"
        if got != want:
            nbad += 1
            if isinstance(got, str):
                fp = f"inotify-decoder: {got.split(':')[0]} raised while decoding a well-formed buffer"
            elif len(got) != len(want):
                fp = "inotify-decoder: wrong number of records decoded"
            else:
                fp = "inotify-decoder: wrong record content decoded"
            size = (nrec, sum(len(c[3]) + c[4] for c in combo), [c[:3] for c in combo], [c[3] for c in combo])
            if fp not in bad or size < bad[fp][0]:
                bad[fp] = (size, dict(records=[[c[0], c[1], c[2], c[3].hex(), c[4]] for c in combo], got=repr(got)))
    return evals, nontrivial, nbad, bad


def _collect(pool, fn, jobs):
    evals = nontrivial = nbad = 0
    bad = {}
    for e, nt, nb, b in pool.imap_unordered(fn, jobs, chunksize=1):
        evals += e
        nontrivial += nt
        nbad += nb
        for fp, v in b.items():
            if fp not in bad or v[0] < bad[fp][0]:
                bad[fp] = v
    return evals, nontrivial, nbad, bad


def decoder_part(ctx, pool):
    quick = ctx.tier == "quick"
    M = 64
    full = ("all", ACTIONS, PADS)
    classes = ("classes", ACTIONS, PADS)
    few = ("few", (1, 5), (0, 1, 3))
    classes2 = ("classes", (1, 5), PADS)
    if quick:
        plan_w = [[full], [classes, classes], [classes, few, few]]
    else:
        plan_w = [[full], [full, full], [classes, classes2, classes2]]
    for specs in plan_w:
        evals, nontrivial, nbad, bad = _collect(pool, _win_decode_job, [(k, M, specs) for k in range(M)])
        for fp, (size, case) in sorted(bad.items()):
            ctx.add_violation(dict(kind="win-decoder", fp=fp, prefix=[], harness="c20",
                                   msg=f"winapi._parse_event_buffer(encode(records)) != records: {case}",
                                   case=dict(layer="win-decoder", **case)))
        ctx.add_enum(f"D-win: {len(specs)} record(s)", evals, nontrivial,
                     samples=[dict(per_record=[dict(names=sp[0], distinct_names=len(win_names(sp[0])), actions=list(sp[1]),
                                                    extra_padding_dwords=list(sp[2])) for sp in specs])],
                     extra=dict(records=len(specs), per_record_space=[len(_win_space(sp)) for sp in specs],
                                name_sets=[sp[0] for sp in specs], failing_evaluations=nbad))
    plan_i = ([[INO_HEADS_ALL], [INO_HEADS_FEW] * 2, [INO_HEADS_FEW] * 3] if quick else
              [[INO_HEADS_ALL], [INO_HEADS_ALL] * 2, [INO_HEADS_ALL, INO_HEADS_FEW, INO_HEADS_FEW]])
    for heads in plan_i:
        evals, nontrivial, nbad, bad = _collect(pool, _ino_decode_job, [(k, M, heads) for k in range(M)])
        for fp, (size, case) in sorted(bad.items()):
            ctx.add_violation(dict(kind="inotify-decoder", fp=fp, prefix=[], harness="c20",
                                   msg=f"Inotify._parse_event_buffer(encode(records)) != records: {case}",
                                   case=dict(layer="inotify-decoder", **case)))
        ctx.add_enum(f"D-inotify: {len(heads)} record(s)", evals, nontrivial,
                     samples=[dict(wd_mask_cookie_per_record=[[list(h_) for h_ in hs] for hs in heads],
                                   names=[n.hex() for n in ino_names()], nul_padding=list(PADS))],
                     extra=dict(records=len(heads), failing_evaluations=nbad))

# =================================================================================================
def setup(tier):
    wd.load()
    winsim.load()
    macsim.load()
    return [], None


def plan(tier):
    """quick: trees <= 2 entries x bursts <= 2.  thorough: trees <= 2 entries x bursts <= 3 plus trees <= 3 entries x
    bursts <= 2 (the full product trees <= 3 x bursts <= 3 costs ~13 min on 16 idle cores with the current fsops
    alphabet and grows with it; it was run twice with identical counts and no further fingerprint - switch FULL on to
    get it back)."""
    q = tier == "quick"
    T = fsops.small_trees
    W = dict(recursive=True, parent_mod_max_burst=2)
    if q:
        return [
            dict(layer="win", cfg=W, trees=T(2), n=2, label="W recursive"),
            dict(layer="win", cfg=dict(recursive=False), trees=T(1), n=2, label="W non-recursive"),
            dict(layer="win", cfg=dict(recursive=True), trees=T(1), n=2, root_delete=True, label="W root deleted"),
            dict(layer="mac", cfg=dict(recursive=True), trees=T(2), n=2, label="M recursive"),
            dict(layer="mac", cfg=dict(recursive=False), trees=T(2), n=2, label="M non-recursive"),
            dict(layer="mac", cfg=dict(recursive=True, suppress_history=True), trees=T(1), n=2, label="M recursive suppress_history"),
            dict(layer="mac", cfg=dict(recursive=True), trees=T(1), n=2, root_delete=True, label="M root deleted"),
        ]
    if FULL:
        big = [dict(layer="win", cfg=W, trees=T(3), n=3, label="W recursive"),
               dict(layer="mac", cfg=dict(recursive=True), trees=T(3), n=3, label="M recursive")]
    else:
        big = [dict(layer="win", cfg=W, trees=T(2), n=3, label="W recursive, trees <= 2 entries, bursts <= 3"),
               dict(layer="win", cfg=W, trees=T(3), n=2, label="W recursive, trees <= 3 entries, bursts <= 2"),
               dict(layer="mac", cfg=dict(recursive=True), trees=T(2), n=3, label="M recursive, trees <= 2 entries, bursts <= 3"),
               dict(layer="mac", cfg=dict(recursive=True), trees=T(3), n=2, label="M recursive, trees <= 3 entries, bursts <= 2")]
    return big + [
        dict(layer="win", cfg=dict(recursive=False), trees=T(3), n=2, label="W non-recursive"),
        dict(layer="win", cfg=dict(recursive=True), trees=T(2), n=2, root_delete=True, label="W root deleted"),
        dict(layer="mac", cfg=dict(recursive=False), trees=T(3), n=2, label="M non-recursive"),
        dict(layer="mac", cfg=dict(recursive=True, suppress_history=True), trees=T(2), n=2, label="M recursive suppress_history"),
        dict(layer="mac", cfg=dict(recursive=True), trees=T(2), n=2, root_delete=True, label="M root deleted"),
    ]


FULL = bool(os.environ.get("C20_FULL"))


def run(ctx):
    import multiprocessing

    setup(ctx.tier)
    for prob in winsim.ROUNDTRIP_PROBLEMS:
        ctx.add_violation(dict(kind="win-roundtrip", fp="win: round trip of a plain 4-record buffer through read_events fails",
                               msg=prob, prefix=[], harness="c20", case=dict(layer="win-roundtrip")))
    mp = multiprocessing.get_context("fork")
    try:
        with mp.Pool(ctx.workers) as pool:
            for p in plan(ctx.tier):
                history_part(ctx, pool, p["layer"], p["cfg"], p["trees"], p["n"], root_delete=p.get("root_delete", False),
                             label=p["label"])
            decoder_part(ctx, pool)
    finally:
        _cleanup_scratch()


def replay(rec):
    setup("quick")
    case = rec["case"]
    layer = case["layer"]
    try:
        if layer == "win-roundtrip":
            print("round trip problems:", winsim.ROUNDTRIP_PROBLEMS)
            bad = bool(winsim.ROUNDTRIP_PROBLEMS)
        elif layer == "win-decoder":
            recs = [(a, "".join(chr(int(c, 16)) for c in nm)) for a, nm in case["records"]]
            buf, n = winsim.encode(recs, case["extra_padding_dwords"])
            got = winsim.winapi()._parse_event_buffer(buf + bytes(16), n)
            print("encoded records:", [(a, [hex(ord(c)) for c in nm]) for a, nm in recs], "padding", case["extra_padding_dwords"])
            print("decoded records:", [(a, [hex(ord(c)) for c in nm]) for a, nm in got])
            bad = got != recs
        elif layer == "inotify-decoder":
            combo = [(w_, ma, co, bytes.fromhex(nm), pad) for w_, ma, co, nm, pad in case["records"]]
            got = list(wd.mod("watchdog.observers.inotify_c").Inotify._parse_event_buffer(_ino_encode(combo)))
            want = [c[:4] for c in combo]
            print("encoded:", want, "decoded:", got)
            bad = got != want
        else:
            h = Hist(case["tree0"], case["ops"])
            cfg = case["cfg"]
            v = case["variant"]
            notifs = (win_notifs(h, v["parent_mod"], v["xdir"], cfg["recursive"]) if layer == "win" else mac_notifs(h))
            steps = tuple(tuple(s) for s in case["steps"])
            probs, res = run_schedule(layer, cfg, h, notifs, steps, v)
            print("history:", h.name())
            print("configuration:", cfg, v)
            print("schedule:", _batches_str(layer, notifs, steps, v.get("place", "last")))
            print("events:", [e[:6] for e in res["events"]])
            print("final tree:", res["final"])
            for fp, msg in probs:
                print("VERDICT:", fp, "-", msg[:1200])
            bad = any(fp == rec["fp"] for fp, _ in probs)
    finally:
        _cleanup_scratch()
    if bad:
        print("VIOLATION property=C20 replay=(case above)")
        return 1
    print("the recorded violation does not reproduce on this tree")
    return 0
