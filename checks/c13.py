"""C13 - the registry stays consistent over any call sequence; failed calls leave no trace.

Explicit-state BFS over API call sequences on a real BaseObserver with a fault-injectable emitter
class.  A state is the call history reaching it; every transition rebuilds a fresh observer under
the deterministic scheduler (default schedule) and replays the history; states are merged on a
canonical dump of the observer's attributes plus the reference model's state.
"""

from __future__ import annotations

from wdmc import explore as ex
from wdmc import vsched, wd

LEVEL = "model_checking"
RULE = ("BFS over call sequences {schedule(h,w) ok / failing at emitter construction / failing at emitter start, "
        "unschedule(w), add/remove_handler, unschedule_all, start, stop} over 2 watches x 2-3 handlers; state key = "
        "canonical dump of all observer attributes + reference map; after every call the real observer is compared "
        "with the reference map (emitters, liveness, routing of a marker event per watch, raised/not raised)")
ASSUMPTIONS = [
    "unschedule/add/remove are only issued for scheduled watches / registered handlers (other uses raise by contract)",
    "a start-time emitter failure is injected only while the observer runs (schedule() starts the emitter itself then)",
    "stop() before start() is not in the alphabet",
    "a history is not extended beyond its first disagreement with the reference (model and code have diverged)",
]

WN = ["w0", "w1"]
# watch name suffixes: r = recursive, F = event_filter [FileCreatedEvent], E = event_filter [] (emits nothing)
VARIANTS = ["w0r", "w0F", "w0E"]


def watch_spec(name):
    base = name.rstrip("rFE")
    return "/" + base, "r" in name[len(base):], ("F" if "F" in name[len(base):] else ("E" if "E" in name[len(base):] else None))


def ops_for(model, phase, handlers, recursive_variants=False):
    out = []
    ws = WN + (VARIANTS if recursive_variants else [])
    for w in ws:
        for h in handlers:
            out.append(("schedule", h, w, None))
            out.append(("schedule", h, w, "ctor"))
            if phase == "running":
                out.append(("schedule", h, w, "start"))
    for w in ws:
        if w in model:
            out.append(("unschedule", w))
            for h in handlers:
                if h in model[w]:
                    out.append(("remove", h, w))
                else:
                    out.append(("add", h, w))
    out.append(("unschedule_all",))
    out.append(("start",))
    if phase != "new":
        out.append(("stop",))
    return out


def apply_model(model, phase, op):
    """Returns (model, phase, raises)."""
    model = {w: set(hs) for w, hs in model.items()}
    k = op[0]
    if k == "schedule":
        if op[3] is not None and not (op[2] in model):
            return model, phase, True       # emitter needed and it fails: no effect at all
        if op[3] is not None and op[2] in model:
            # watch already has its emitter: no emitter is created, nothing can fail
            model[op[2]].add(op[1])
            return model, phase, False
        model.setdefault(op[2], set()).add(op[1])
        return model, phase, False
    if k == "unschedule":
        del model[op[1]]
    elif k == "add":
        model[op[2]].add(op[1])
    elif k == "remove":
        model[op[2]].discard(op[1])
    elif k == "unschedule_all":
        model = {}
    elif k == "start":
        if phase == "new":
            return model, "running", False
        return model, phase, True
    elif k == "stop":
        return {}, "stopped", False
    return model, phase, False


class RegHarness(ex.Harness):
    sched_kwargs = dict(max_steps=60000, timer_deviations=False)

    def __init__(self, hist, handlers):
        self.hist = tuple(hist)
        self.handlers = handlers
        self.name = "reg " + repr(self.hist)

    def body(self, s):
        api = wd.mod("watchdog.observers.api")
        events = wd.mod("watchdog.events")
        plan = {"next": None}
        received = []

        class FaultEmitter(api.EventEmitter):
            def __init__(self, event_queue, watch, *, timeout=1.0, event_filter=None):
                fault, plan["next"] = plan["next"], None
                if fault == "ctor":
                    raise OSError("injected: emitter cannot be created")
                super().__init__(event_queue, watch, timeout=timeout, event_filter=event_filter)
                self.fail_start = fault == "start"
                self.wname = wname(watch)

            def __hash__(self):
                return 100 + (WN + VARIANTS).index(self.wname)

            def __eq__(self, o):
                return self is o

            def on_thread_start(self):
                if self.fail_start:
                    raise OSError("injected: emitter cannot be started")

            def queue_events(self, timeout):
                self.stopped_event.wait()

        class Handler(events.FileSystemEventHandler):
            def __init__(self, hname):
                self.hname = hname

            def __hash__(self):
                return int(self.hname[1:]) + 1

            def __eq__(self, o):
                return self is o

            def dispatch(self, event):
                received.append((self.hname, event.src_path))

        def wname(w):
            f = w.event_filter
            return w.path[1:] + ("r" if w.is_recursive else "") + ("" if f is None else ("F" if f else "E"))

        handlers = {h: Handler(h) for h in self.handlers}
        obs = api.BaseObserver(FaultEmitter, timeout=1.0)
        watches = {}
        model, phase = {}, "new"
        problems = []
        marker = 0


        def canon(v, depth=0):
            if isinstance(v, api.ObservedWatch):
                return ("W", wname(v))
            if isinstance(v, Handler):
                return ("H", v.hname)
            if isinstance(v, FaultEmitter):
                return ("E", v.wname, v.is_alive(), v.stopped_event.is_set(), v.fail_start)
            if isinstance(v, dict):
                return ("dict",) + tuple(sorted((canon(k), canon(x)) for k, x in v.items()))
            if isinstance(v, (set, frozenset)):
                return ("set",) + tuple(sorted(canon(x) for x in v))
            if isinstance(v, (list, tuple)):
                return ("seq",) + tuple(canon(x) for x in v)
            if isinstance(v, vsched.Event):
                return ("event", v._flag)
            if isinstance(v, (bool, int, float, str, type(None))):
                return v
            if hasattr(v, "qsize"):
                return ("queue", v.qsize())
            return type(v).__name__

        for step, op in enumerate(self.hist):
            k = op[0]
            raised = None
            try:
                if k == "schedule":
                    plan["next"] = op[3]
                    path, rec, flt = watch_spec(op[2])
                    ef = None if flt is None else ([events.FileCreatedEvent] if flt == "F" else [])
                    try:
                        watches[op[2]] = obs.schedule(handlers[op[1]], path, recursive=rec, event_filter=ef)
                    finally:
                        plan["next"] = None
                elif k == "unschedule":
                    obs.unschedule(watches[op[1]])
                elif k == "add":
                    obs.add_handler_for_watch(handlers[op[1]], watches[op[2]])
                elif k == "remove":
                    obs.remove_handler_for_watch(handlers[op[1]], watches[op[2]])
                elif k == "unschedule_all":
                    obs.unschedule_all()
                elif k == "start":
                    obs.start()
                elif k == "stop":
                    obs.stop()
            except vsched.Abort:
                raise
            except Exception as e:  # noqa: BLE001
                raised = type(e).__name__
            model, phase, m_raises = apply_model(model, phase, op)
            s.idle("drain")
            last = step == len(self.hist) - 1
            if not last:
                continue  # prefixes were checked when they were the frontier
            if bool(raised) != m_raises:
                problems.append(("call-result", f"{op} raised {raised}, reference says raises={m_raises}"))
            # 1. emitters = one per scheduled watch
            ems = sorted(wname(e.watch) for e in obs.emitters)
            if ems != sorted(model):
                problems.append(("emitters", f"observer.emitters watch {ems}, scheduled watches are {sorted(model)}"))
            # 2. liveness
            running = phase == "running"
            for e in obs.emitters:
                if e.is_alive() != running:
                    problems.append(("alive", f"emitter of {wname(e.watch)} alive={e.is_alive()} but observer phase is {phase}"))
            if obs.is_alive() != running:
                problems.append(("observer-alive", f"observer alive={obs.is_alive()} in phase {phase}"))
            # 3. routing of one marker per emitter
            if running and obs.is_alive():
                for e in sorted(obs.emitters, key=lambda e: wname(e.watch)):
                    marker += 1
                    received.clear()
                    e.queue_event(events.FileCreatedEvent(f"/marker{marker}"))
                    s.idle("drain")
                    got = sorted(h for h, _ in received)
                    exp = sorted(model.get(wname(e.watch), ()))
                    if wname(e.watch).endswith("E"):
                        exp = []       # an empty filter selects nothing
                    if got != exp:
                        problems.append(("routing", f"marker through emitter of {wname(e.watch)} reached {got}, "
                                                    f"reference says {exp}"))
        try:
            key = tuple(sorted((k, canon(v)) for k, v in vars(obs).items()
                               if k not in ("_lock", "_name", "_vt", "_target", "_args", "_kwargs")))
        except Exception:  # noqa: BLE001
            key = ("history", self.hist)
        mkey = (phase, tuple(sorted((w, tuple(sorted(hs))) for w, hs in model.items())))
        # leave no thread behind
        try:
            obs.stop()
            if obs._started_flag:
                obs.join()
        except Exception:  # noqa: BLE001
            pass
        for l in list(obs.emitters):
            l.stop()
        return dict(problems=problems, key=repr((key, mkey)), model=mkey)


def bfs(ctx, handlers, recursive_variants, max_depth, max_states):
    pool_hist = [()]
    seen = set()
    states = 0
    transitions = 0
    frontier = [((), {}, "new")]
    seen_keys = set()
    samples = []
    import multiprocessing
    import os

    depth = 0
    closed = False
    mp = multiprocessing.get_context("fork")
    _W["handlers"] = handlers
    with mp.Pool(ctx.workers, initializer=_init) as pool:
        r0 = _run_hist(())
        seen_keys.add(r0["key"])
        states = 1
        while frontier and depth < max_depth:
            depth += 1
            jobs = []
            for hist, model, phase in frontier:
                for op in ops_for(model, phase, handlers, recursive_variants):
                    jobs.append(hist + (op,))
            nxt = []
            for hist, r in zip(jobs, pool.imap(_run_hist, jobs, chunksize=8)):
                transitions += 1
                if r.get("infra"):
                    ctx.add_violation(dict(kind="harness-error", msg=r["infra"], fp="harness-error", infra=True))
                    continue
                if r["problems"]:
                    for kind, msg in r["problems"]:
                        last = hist[-1]
                        m0, p0 = {}, "new"
                        for o in hist[:-1]:
                            m0, p0, _ = apply_model(m0, p0, o)
                        fp = f"{kind} after {last[0]}" + (f"[fail={last[3]}]" if last[0] == "schedule" and last[3] else "") \
                             + f" in phase {p0}"
                        ctx.add_violation(dict(kind=kind, fp=fp, msg=f"{msg}; history={hist}", prefix=[],
                                               harness="reg", history=[list(o) for o in hist]))
                    continue  # diverged: not extended
                if r["key"] in seen_keys:
                    continue
                seen_keys.add(r["key"])
                states += 1
                if len(samples) < 2 and len(hist) >= 3:
                    samples.append(dict(history=[list(o) for o in hist], state=r["key"][:300]))
                # recompute the model for expansion
                model, phase = {}, "new"
                for op in hist:
                    model, phase, _ = apply_model(model, phase, op)
                nxt.append((hist, model, phase))
                if states >= max_states:
                    break
            frontier = nxt
            if states >= max_states:
                break
        closed = not frontier
    ctx.executions += transitions
    ctx.add_enum(f"registry-bfs handlers={len(handlers)} recursive_variants={recursive_variants}", 0, 0,
                 samples, states=states, transitions=transitions, exhaustive=closed,
                 extra=dict(depth_reached=depth, closed=closed, handlers=handlers))
    return closed


_W = {}


def _init():
    ex.pin_cpu(os_getpid_index())


def os_getpid_index():
    import os
    return os.getpid() % 64


def _run_hist(hist):
    h = RegHarness(hist, _W["handlers"])
    res = ex.run_one(h, b"")
    if res.harness_error or res.abort or res.value is None:
        return dict(infra=f"history {hist}: harness_error={res.harness_error} abort={res.abort} errors={res.errors}")
    out = res.value
    if res.errors:
        out["problems"].append(("thread-error", f"library thread died: {res.errors}"))
    return out


def setup(tier):
    wd.load()
    return [], None


def replay(rec):
    wd.load()
    _W["handlers"] = ["h0", "h1", "h2"]
    r = _run_hist(tuple(tuple(o) for o in rec["history"]))
    print("history:", rec["history"])
    print("problems:", r.get("problems"), r.get("infra"))
    if r.get("problems"):
        print(f"VIOLATION property=C13 replay=(see above)")
        return 1
    return 0


def run(ctx):
    wd.load()
    if ctx.tier == "quick":
        bfs(ctx, ["h0", "h1"], False, max_depth=40, max_states=100000)
        bfs(ctx, ["h0", "h1"], True, max_depth=40, max_states=100000)
    else:
        bfs(ctx, ["h0", "h1"], True, max_depth=60, max_states=500000)
        bfs(ctx, ["h0", "h1", "h2"], True, max_depth=60, max_states=500000)
