"""C07 - monitoring never silently dies while the observer runs and the root exists."""

from __future__ import annotations

from wdmc import fsops, inoapi, wd

LEVEL = "model_checking"
RULE = ("explicit-state BFS over drained states of (real tree, real InotifyObserver) with UNRESTRICTED pacing: all bursts "
        "of 1..k operations incl. operations on directories that were moved out of the tree, names re-used after "
        "delete/move and deletion of the root as last operation; chains of single operations to depth 4; plus all "
        "schedules with <= bound deviations on 2-operation bursts where the operator resumes at any library seam call "
        "(so entries vanish between a notification and the library's follow-up add_watch/walk) and the kernel buffer "
        "is split at any record boundary; oracle: no library thread ends with an uncaught exception, a probe file in "
        "every existing directory is still reported, root deletion gives exactly one DirDeletedEvent(root) and a "
        "stopped emitter")
ASSUMPTIONS = [
    "real Linux inotify of this kernel as environment, serialised by the scheduler",
    "lookup failures are produced by scheduling real operations between a notification and the library's follow-up "
    "call, not by mocking errno answers (an injected ENOENT on an entry that exists would be an inconsistent environment)",
    "API part: start/schedule/unschedule/stop programs racing the real inotify and polling emitters (wdmc/inoapi.py), "
    "verdict = no library thread dies with an exception, no descriptor misuse",
]


def setup(tier):
    wd.load()
    return [], None


CHECKS = [fsops.check_alive_and_reported]


def plan(tier):
    q = tier == "quick"
    rec = fsops.Config()
    flat = fsops.Config(recursive=False)
    if q:
        return [
            dict(cfgs=[rec], trees=fsops.small_trees(2), burst_len=2, depth=1, cap=40000, root_delete=True),
            dict(cfgs=[rec], trees=fsops.small_trees(1), burst_len=1, depth=4, cap=40000, root_delete=False),
            dict(cfgs=[flat], trees=fsops.small_trees(2), burst_len=1, depth=1, cap=10000, root_delete=True),
            dict(cfgs=[fsops.Config(root_form="slash"), fsops.Config(root_form="rel"), fsops.Config(root_type="bytes")],
                 trees=fsops.small_trees(1), burst_len=1, depth=1, cap=10000, root_delete=True),
        ]
    return [
        dict(cfgs=[rec], trees=fsops.small_trees(4), burst_len=2, depth=2, cap=1_500_000, root_delete=True),
        dict(cfgs=[rec], trees=fsops.small_trees(2), burst_len=3, depth=1, cap=800_000, root_delete=True),
        dict(cfgs=[rec], trees=fsops.small_trees(1), burst_len=1, depth=6, cap=400_000, root_delete=False),
        dict(cfgs=[flat, fsops.Config(full=True)], trees=fsops.small_trees(3), burst_len=2, depth=1, cap=300_000, root_delete=True),
        dict(cfgs=[fsops.Config(root_form="slash"), fsops.Config(root_form="rel"), fsops.Config(root_type="bytes"),
                   fsops.Config(root_type="path", root_form="slash")],
             trees=fsops.small_trees(2), burst_len=2, depth=1, cap=300_000, root_delete=True),
    ]


def run(ctx):
    for i, p in enumerate(plan(ctx.tier)):
        fsops.graph_search(ctx, p["cfgs"], p["trees"], CHECKS, burst_len=p["burst_len"], depth=p["depth"],
                           respect_pacing=False, cap=p["cap"], root_delete=p["root_delete"], label=f"graph{i}",
                           classify=fsops.classify)
    fsops.deviation_search(ctx, CHECKS, tier=ctx.tier, respect_pacing=False, root_delete=True, outside_ops=True)
    fsops.vanish_search(ctx, CHECKS, tier=ctx.tier)
    # API part: calls racing the real emitters (code-level scheduling points in inotify.py / inotify_buffer.py / inotify_c.py)
    ctx.instrumented = inoapi.instrument()
    hs = [ApiH(f"c07 {n}", p) for n, p in inoapi.programs(ctx.tier)]
    ctx.explore_many([(h, 1 if ctx.tier == "quick" else 2) for h in hs], cap=400_000 if ctx.tier == "quick" else 20_000_000,
                     workers=fsops.fs_workers(ctx))


class ApiH(inoapi.ApiHarness):
    def check(self, res):
        return inoapi.check_no_thread_error(self, res)


def replay(rec):
    return fsops.replay_record(rec, CHECKS)
