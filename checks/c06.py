"""C06 - no API call order deadlocks; stop()+join() always ends every library thread."""

from __future__ import annotations

import itertools

from wdmc import fsops, inoapi, obsfam, vsched, wd

LEVEL = "model_checking"
RULE = ("all programs of <= 2 application threads x <= 2-3 calls from {start, schedule, unschedule, unschedule_all, "
        "stop, join} (+ re-entrant calls from callbacks) over the real BaseObserver with scripted emitters; for each "
        "program all schedules with <= bound deviations; verdict = scheduler deadlock/horizon detection + set of live "
        "library threads after the final stop();join(); distinct = distinct (call results, live threads) outcomes")
ASSUMPTIONS = [
    "calls that raise by contract (second start(), join() before start(), unknown watch) simply return their error",
    "thread exit is required after a stop() that began when all other calls had returned, followed by join() "
    "(the harness epilogue issues exactly that)",
    "parts (b)/(c): the real InotifyObserver on the real kernel and the real PollingObserver on a real tree with a "
    "virtual clock, incl. a watched root that is deleted before stop()",
]


class H(obsfam.ObsHarness):
    def check(self, res):
        out = self.base_check(res, allow_errors=True, allow_leak=True)
        if res.value is not None and not res.abort and res.value["lib_alive"]:
            out.append(dict(kind="threads-alive-after-stop-join",
                            msg=f"library threads still alive after the final stop(); join(): {res.value['lib_alive']}; "
                                f"program={self.prog}; log={res.value['log']}",
                            fp="threads-alive-after-stop-join"))
        return out

    def outcome(self, res):
        if res.value is None:
            return repr((res.abort and res.abort[0], res.errors))
        v = res.value
        return repr(([e[3:5] for e in v["log"] if e[0] == "ret"], v["lib_alive"], res.abort and res.abort[0]))


def programs(tier):
    S = lambda h, w: ("schedule", h, w)
    A = [("start",), S("h1", "w1"), ("unschedule", "w0"), ("unschedule_all",), ("stop",), ("join",)]
    P = []
    seqs1 = [(a,) for a in A]
    seqs2 = [(a, b) for a in A for b in A if not (a == b and a[0] in ("join",))]
    scripts = {"w0": ["x"], "w1": ["x"]}
    n = 0
    for started in (True, False):
        base = dict(init=[S("h0", "w0")], scripts=scripts, start=started)
        # one application thread, 1..2 calls (3 in thorough)
        seqs = seqs1 + seqs2
        if tier == "thorough":
            seqs = seqs + [(a, b, c) for a in A for b in A for c in A if c[0] != "join" or b[0] != "join"]
        if tier != "thorough":
            S3 = [(("stop",), S("h1", "w1"), ("start",)), (("start",), ("stop",), ("start",)),
                  (("stop",), ("start",), S("h1", "w1")), (("start",), ("stop",), S("h1", "w1"))]
            seqs = seqs + [sq3 for sq3 in S3 if not started or sq3[0][0] != "start"]
        for sq in seqs:
            P.append((f"1t-{'run' if started else 'new'}-" + "+".join(o[0] for o in sq) + f"#{n}", dict(base, threads=[list(sq)])))
            n += 1
        # two application threads
        for s0 in seqs1 + (seqs2 if tier == "thorough" else []):
            for s1 in seqs1:
                if s0 + s1 == (("join",), ("join",)):
                    continue
                P.append((f"2t-{'run' if started else 'new'}-" + "+".join(o[0] for o in s0) + "|" + "+".join(o[0] for o in s1)
                          + f"#{n}", dict(base, threads=[list(s0), list(s1)])))
                n += 1
        # re-entrant calls from a callback
        for op in A[:5]:
            P.append((f"re-{'run' if started else 'new'}-{op[0]}#{n}",
                      dict(base, threads=[[("start",)]] if not started else [], reentrant={("h0", 0): op})))
            n += 1
            P.append((f"re-{'run' if started else 'new'}-{op[0]}-ext-stop#{n}",
                      dict(base, threads=[[("start",)], [("stop",)]] if not started else [[("stop",)]],
                           reentrant={("h0", 0): op})))
            n += 1
    return P


def setup(tier):
    wd.load()
    api = wd.mod("watchdog.observers.api")
    desc = vsched.instrument(
        line_modules=[api, wd.mod("watchdog.utils.bricks"), wd.mod("watchdog.utils")],
        instr_functions=[(api.BaseObserver, "dispatch_events")], exclude=obsfam.EXCLUDE)
    desc2 = inoapi.instrument()
    real = [ApiH(f"c06 {n}", p) for n, p in inoapi.programs(tier)]
    return [H(f"c06 {n}", p) for n, p in programs(tier)] + real, dict(scripted=desc, real_emitters=desc2)


class ApiH(inoapi.ApiHarness):
    def check(self, res):
        return inoapi.check_liveness(self, res)


def run(ctx):
    hs, ctx.instrumented = setup(ctx.tier)
    q = ctx.tier == "quick"
    real = [h for h in hs if isinstance(h, ApiH)]
    hs = [h for h in hs if not isinstance(h, ApiH)]
    ctx.explore_many([(h, 1 if q else 2) for h in real], cap=400_000 if q else 20_000_000, workers=fsops.fs_workers(ctx))
    ctx.explore_many([(h, 1 if q else 2) for h in hs], cap=3_000_000 if q else 60_000_000)
    if q:
        two = [h for h in hs if h.name.split()[1].startswith(("2t-run-stop", "2t-run-unschedule", "re-run-stop", "2t-new-start|start"))]
        ctx.explore_many([(h, 2) for h in two], cap=2_000_000, selftest=False)
