"""C19 - event paths keep the caller's path type and the entry's exact name, all backends."""

from __future__ import annotations

import os
import shutil

from wdmc import fsops, wd

LEVEL = "model_checking"
RULE = ("every single operation (and, thorough, every 2-operation burst) of the C03 alphabet from every small initial tree, "
        "for root spelled as str / bytes / pathlib.Path x absolute / relative (cwd = scratch) / trailing slash x entry "
        "names ASCII / non-ASCII UTF-8 / undecodable byte 0xff, recursive; inotify observer (real kernel, deterministic "
        "scheduler) and polling emitter (driven poll by poll on the same real tree); every non-empty src/dest path of "
        "every delivered event (real, synthetic, parent-modified) is checked for type and exact name")
ASSUMPTIONS = [
    "entry names are compared after os.fsencode + os.path.normpath; in addition every path must textually start with the "
    "watched path as it was given (minus trailing slashes), e.g. base/./R/name for a root given as base/./R",
    "the two observers are held to the same oracle on the same operations; their event sets legitimately differ",
    "filesystem encoding of the process is UTF-8 with surrogateescape (undecodable names round-trip)",
]

FORMS = [(t, f) for t in ("str", "bytes", "path") for f in ("abs", "rel", "slash")] + [("str", "dot"), ("bytes", "dot")]
NAMES = ["ascii", "utf8", "undecodable"]


def setup(tier):
    wd.load()
    return [], None


CHECKS = [fsops.check_paths]


def polling_part(ctx, tier):
    """Polling emitter on the same real operations (sequential: one poll after each operation)."""
    wd.load()
    pol = wd.mod("watchdog.observers.polling")
    api = wd.mod("watchdog.observers.api")
    import pathlib
    import queue as realq

    n = 0
    distinct = set()
    samples = []
    trees = fsops.small_trees(2 if tier == "quick" else 3)
    base = os.path.join(fsops.scratch_base(), "poll")
    for (rtype, form) in FORMS:
        for names in NAMES:
            cfg = fsops.Config(root_type=rtype, root_form=form, names=names, outside_ops=False)
            for t in trees:
                for b in fsops.bursts(fsops.Model(t), 1, True, outside_ops=False):
                    h = fsops.HistoryHarness(t, b, cfg)
                    shutil.rmtree(base, ignore_errors=True)
                    R, O = os.path.join(base, "R"), os.path.join(base, "O")
                    os.makedirs(R)
                    os.makedirs(O)
                    try:
                        fsops.build_tree(R, {h.mapname(p): k for p, k in t.items()})
                        root_arg = R
                        if form == "rel":
                            os.chdir(base)
                            root_arg = "R"
                        elif form == "slash":
                            root_arg = R + "/"
                        elif form == "dot":
                            root_arg = os.path.join(base, ".", "R")
                        given = os.fsencode(root_arg).rstrip(b"/")
                        if rtype == "bytes":
                            root_arg = os.fsencode(root_arg)
                        elif rtype == "path":
                            root_arg = pathlib.Path(root_arg)
                        q = api.EventQueue()
                        w = api.ObservedWatch(root_arg, recursive=True)
                        em = pol.PollingEmitter(q, w, timeout=0)
                        em.on_thread_start()
                        state = {"out": [], "n": 0}
                        evs = []
                        for i, (op, _) in enumerate(b):
                            h.perform(R, O, op, state)
                            em.queue_events(0)
                            while True:
                                try:
                                    e, _w = q.get_nowait()
                                except realq.Empty:
                                    break
                                evs.append(e)
                        Rb = os.fsencode(R)
                        baseb = os.fsencode(base)
                        rec = []
                        for e in evs:
                            def rel(p):
                                if p == "" or p == b"":
                                    return None
                                bb = os.fsencode(p)
                                if not bb.startswith(b"/"):
                                    bb = os.path.join(baseb, bb)
                                bb = os.path.normpath(bb)
                                if bb == Rb:
                                    return ""
                                if bb.startswith(Rb + b"/"):
                                    return os.fsdecode(bb[len(Rb) + 1:])
                                return "!" + os.fsdecode(bb)
                            def under(p):
                                bb = os.fsencode(p)
                                return not bb or bb == given or bb.startswith(given + b"/")
                            rec.append((0, type(e).__name__, rel(e.src_path), rel(e.dest_path), e.is_directory, e.is_synthetic,
                                        type(e.src_path).__name__ + "/" + type(e.dest_path).__name__,
                                        under(e.src_path) and under(e.dest_path)))

                        class R_:  # minimal stand-in for a scheduler result
                            value = dict(events=rec, probe_events=[])
                            errors = []
                        for v in fsops.check_paths(h, R_):
                            v = dict(v, fp="polling " + v["fp"], prefix=[], harness=h.name, tree0=t,
                                     history=[[list(op), p] for op, p in b], cfg=cfg.tag())
                            ctx.add_violation(v)
                        n += 1
                        if rec:
                            distinct.add((cfg.tag(), tuple(sorted(t)), repr(b)))
                        if len(samples) < 2 and rec and names != "ascii":
                            samples.append(dict(history=h.name, events=[r[1:4] for r in rec][:4]))
                    finally:
                        os.chdir("/")
                        shutil.rmtree(base, ignore_errors=True)
    ctx.add_enum("polling-emitter-paths", n, len(distinct), samples)


def run(ctx):
    q = ctx.tier == "quick"
    cfgs = [fsops.Config(root_type=t, root_form=f, names=n, outside_ops=False) for (t, f) in FORMS for n in NAMES]
    fsops.graph_search(ctx, cfgs, fsops.small_trees(2), CHECKS, burst_len=1 if q else 2, depth=1,
                       respect_pacing=True, cap=60000 if q else 600000, label="inotify-paths", classify=None)
    extra = [fsops.Config(names="prefix", outside_ops=False), fsops.Config(names="prefix", root_type="bytes", outside_ops=False)]
    fsops.graph_search(ctx, extra, fsops.small_trees(2), CHECKS, burst_len=1, depth=2, respect_pacing=True,
                       cap=30000 if q else 300000, label="inotify-paths-prefix-names", classify=None)
    twins = [fsops.Config(root_type="str", second_type="bytes", outside_ops=False),
             fsops.Config(root_type="bytes", second_type="str", outside_ops=False),
             fsops.Config(root_type="path", second_type="bytes", outside_ops=False)]
    fsops.graph_search(ctx, twins, fsops.small_trees(1 if q else 2), CHECKS, burst_len=1, depth=1, respect_pacing=True,
                       cap=20000 if q else 200000, label="inotify-paths-twin-watches", classify=None)
    polling_part(ctx, ctx.tier)


def replay(rec):
    return fsops.replay_record(rec, CHECKS)
