"""C03 - every delivered event is justified and correctly typed; single operations meet their contract."""

from __future__ import annotations

from wdmc import fsops, wd

LEVEL = "model_checking"
RULE = ("explicit-state BFS over drained states of (real tree, real InotifyObserver): (completeness) every single "
        "operation of the alphabet, issued alone and drained, in every state reachable within the depth, for "
        "recursive/non-recursive x normal/full emitters: required(op) <= delivered <= allowed(op) as sets of (class, "
        "src, dest, synthetic); (soundness) every pacing-respecting burst of <= k operations incl. operations on "
        "entries that have left the tree: every delivered event lies in the union of allowed(op_i), File/Dir flavour "
        "equals is_directory; the contract table is data in wdmc/fsops.py:contract")
ASSUMPTIONS = [
    "real Linux inotify of this kernel as environment, serialised by the scheduler",
    "events are compared as sets (the event queue may coalesce adjacent duplicates)",
    "allowed(op) contains the timing variants the library is entitled to (a rename reported as deleted + created, "
    "half-empty moved events of the full emitter, either way of learning about a descendant of a new directory) and "
    "DirModifiedEvent for every directory the operation touched",
]


def setup(tier):
    wd.load()
    return [], None


CHECKS = [fsops.check_contract]


def plan(tier):
    q = tier == "quick"
    C = fsops.Config
    four = [C(), C(recursive=False), C(full=True), C(recursive=False, full=True)]
    if q:
        return [
            dict(cfgs=four, trees=fsops.small_trees(3), burst_len=1, depth=2, cap=60000),
            dict(cfgs=[C()], trees=fsops.small_trees(2), burst_len=2, depth=1, cap=40000),
            dict(cfgs=[C(names="prefix")], trees=fsops.small_trees(2), burst_len=1, depth=2, cap=20000),
            dict(cfgs=[C(root_form="dot"), C(root_form="slash", root_type="bytes")], trees=fsops.small_trees(1), burst_len=1, depth=1, cap=20000),
        ]
    return [
        dict(cfgs=four, trees=fsops.small_trees(4), burst_len=1, depth=3, cap=1_500_000),
        dict(cfgs=[C(), C(full=True)], trees=fsops.small_trees(4), burst_len=2, depth=1, cap=600_000),
        dict(cfgs=[C()], trees=fsops.small_trees(2), burst_len=3, depth=1, cap=600_000),
        dict(cfgs=[C(names="prefix")], trees=fsops.small_trees(3), burst_len=2, depth=1, cap=400_000),
        dict(cfgs=[C(root_form="dot"), C(root_form="slash", root_type="bytes"), C(root_form="rel")], trees=fsops.small_trees(3),
             burst_len=1, depth=1, cap=200_000),
    ]


def run(ctx):
    for i, p in enumerate(plan(ctx.tier)):
        fsops.graph_search(ctx, p["cfgs"], p["trees"], CHECKS, burst_len=p["burst_len"], depth=p["depth"],
                           respect_pacing=True, cap=p["cap"], label=f"graph{i}", classify=fsops.classify)
    fsops.single_op_deviation_search(ctx, CHECKS, tier=ctx.tier)


def replay(rec):
    return fsops.replay_record(rec, CHECKS)
